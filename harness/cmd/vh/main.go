// Command vh is the correspondence harness: vh <engine> -out DIR [-tier quick|thorough] [-seed N] [-replay FILE]
package main

import (
	"flag"
	"fmt"
	"os"

	"github.com/99designs/gqlgen/api"
	"github.com/99designs/gqlgen/codegen/config"
	"github.com/99designs/gqlgen/plugin/stubgen"

	"verifharness/engines/c01"
	"verifharness/engines/c02"
	"verifharness/engines/c04"
	"verifharness/engines/c05"
	"verifharness/engines/c06"
	"verifharness/engines/c08"
	"verifharness/engines/c10"
	"verifharness/engines/c11"
	"verifharness/engines/c12"
	"verifharness/engines/c13"
	"verifharness/engines/c14"
	"verifharness/engines/c15"
	"verifharness/engines/c16"
	"verifharness/engines/c17"
	"verifharness/engines/c18"
	"verifharness/engines/c19"
	"verifharness/engines/c20"
	"verifharness/engines/pipe"
	"verifharness/gen"
)

var engines = map[string]func(*gen.Ctx) error{
	"c01": c01.Run,
	"c02": c02.Run,
	"c04": c04.Run,
	"c05": c05.Run,
	"c06": c06.Run,
	"c03": pipe.RunAs("C03"),
	"c07": pipe.RunAs("C07"),
	"c09": pipe.RunAs("C09"),
	"c08": c08.Run,
	"c10": c10.Run,
	"c11": c11.Run,
	"c12": c12.Run,
	"c13": c13.Run,
	"c14": c14.Run,
	"c15": c15.Run,
	"c16": c16.Run,
	"c17": c17.Run,
	"c18": c18.Run,
	"c19": c19.Run,
	"c20": c20.Run,
}

func main() {
	if len(os.Args) < 2 {
		fmt.Fprintln(os.Stderr, "usage: vh <engine> -out DIR [-tier T] [-seed N] [-replay F]")
		os.Exit(2)
	}
	name := os.Args[1]
	if name == "gen" {
		runGenerator(os.Args[2:])
		return
	}
	if name == "stress" {
		stress(os.Args[2:])
		return
	}
	fs := flag.NewFlagSet(name, flag.ExitOnError)
	out := fs.String("out", "", "output directory")
	tier := fs.String("tier", "quick", "quick|thorough")
	seed := fs.Uint64("seed", 1, "PRNG seed")
	replay := fs.String("replay", "", "replay file")
	fs.Parse(os.Args[2:])
	run, ok := engines[name]
	if !ok {
		fmt.Fprintf(os.Stderr, "unknown engine %q\n", name)
		os.Exit(2)
	}
	if *out == "" {
		fmt.Fprintln(os.Stderr, "-out required")
		os.Exit(2)
	}
	if err := os.MkdirAll(*out, 0o755); err != nil {
		fmt.Fprintln(os.Stderr, err)
		os.Exit(2)
	}
	ctx := &gen.Ctx{OutDir: *out, Tier: *tier, Seed: *seed, Replay: *replay}
	if err := run(ctx); err != nil {
		fmt.Fprintln(os.Stderr, "engine error:", err)
		os.Exit(3)
	}
}

// runGenerator: vh gen DIR [STUBFILE] — gqlgen's generator (api.Generate from /repo's current tree plus
// the stubgen plugin) in a probe module directory. Run as a subprocess by the probe factory.
func runGenerator(args []string) {
	if len(args) < 1 {
		fmt.Fprintln(os.Stderr, "usage: vh gen DIR [STUB]")
		os.Exit(2)
	}
	if err := os.Chdir(args[0]); err != nil {
		fmt.Fprintln(os.Stderr, err)
		os.Exit(2)
	}
	defer func() {
		if r := recover(); r != nil {
			fmt.Fprintln(os.Stderr, "GENERATOR PANIC:", r)
			os.Exit(4)
		}
	}()
	cfg, err := config.LoadConfigFromDefaultLocations()
	if err != nil {
		fmt.Fprintln(os.Stderr, "config:", err)
		os.Exit(3)
	}
	cfg.SkipModTidy = true
	stub := "graph/stub.go"
	if len(args) > 1 {
		stub = args[1]
	}
	if err := api.Generate(cfg, api.AddPlugin(stubgen.New(stub, "Stub"))); err != nil {
		fmt.Fprintln(os.Stderr, "generate:", err)
		os.Exit(3)
	}
}
