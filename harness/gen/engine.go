package gen

import (
	"encoding/json"
	"os"
	"path/filepath"
)

// Ctx is what the dispatcher hands every engine.
type Ctx struct {
	OutDir string
	Tier   string // quick | thorough
	Seed   uint64
	Replay string // path of a replay file, or ""
}

func (c *Ctx) Thorough() bool { return c.Tier == "thorough" }

// Meta is what an engine reports about a run; bin/check merges it into the evidence file.
type Meta struct {
	Property           string         `json:"property"`
	Files              []FileMeta     `json:"files"`
	Evaluations        int            `json:"evaluations"`
	DistinctNontrivial int            `json:"distinct_nontrivial"`
	Rule               string         `json:"rule"`
	Samples            []any          `json:"samples"`
	Programs           int            `json:"programs,omitempty"`
	Distribution       map[string]any `json:"distribution"`
	// Direct violations found by the engine itself (runtime observations the model cannot carry,
	// e.g. a hang or a crash); each has a replay description.
	Direct []DirectFinding `json:"direct"`
	Notes  []string        `json:"notes,omitempty"`
}

type FileMeta struct {
	File   string   `json:"file"`
	Kind   string   `json:"kind"`
	Start  int      `json:"start"`
	Count  int      `json:"count"`
	Checks []string `json:"checks"`
	// Cases is the jsonl file with one replayable description per case of this kind.
	Cases string `json:"cases"`
}

type DirectFinding struct {
	Signature string `json:"signature"` // stable id used to match known findings
	What      string `json:"what"`
	Replay    any    `json:"replay"`
}

func (m *Meta) Write(dir string) error {
	b, err := json.MarshalIndent(m, "", " ")
	if err != nil {
		return err
	}
	return os.WriteFile(filepath.Join(dir, "meta.json"), b, 0o644)
}

// AddCaseFile flushes a CaseFile and its JSON descriptions and records them in the meta.
func (m *Meta) AddCaseFile(c *CaseFile, descr []any) error {
	files, err := c.Flush()
	if err != nil {
		return err
	}
	jl := "cases_" + c.Prop + "_" + c.Kind + ".jsonl"
	f, err := os.Create(filepath.Join(c.Dir, jl))
	if err != nil {
		return err
	}
	enc := json.NewEncoder(f)
	for _, d := range descr {
		if err := enc.Encode(d); err != nil {
			return err
		}
	}
	f.Close()
	var labels []string
	for _, ch := range c.Checks {
		labels = append(labels, ch.Label)
	}
	for k, name := range files {
		cnt := c.Shard
		if (k+1)*c.Shard > c.Len() {
			cnt = c.Len() - k*c.Shard
		}
		m.Files = append(m.Files, FileMeta{File: name, Kind: c.Kind, Start: k * c.Shard, Count: cnt, Checks: labels, Cases: jl})
	}
	return nil
}
