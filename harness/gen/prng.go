// Package gen holds what every engine shares: one PRNG, Coq term printers, the case-file writer.
package gen

// Rand is splitmix64: every random choice of a run derives from one state seeded by VERIF_SEED.
type Rand struct{ s uint64 }

func NewRand(seed uint64) *Rand { return &Rand{s: seed*0x9E3779B97F4A7C15 + 0x1234567} }

func (r *Rand) U64() uint64 {
	r.s += 0x9E3779B97F4A7C15
	z := r.s
	z = (z ^ (z >> 30)) * 0xBF58476D1CE4E5B9
	z = (z ^ (z >> 27)) * 0x94D049BB133111EB
	return z ^ (z >> 31)
}

// Intn returns a value in [0,n).
func (r *Rand) Intn(n int) int {
	if n <= 0 {
		return 0
	}
	return int(r.U64() % uint64(n))
}

func (r *Rand) Bool() bool { return r.U64()&1 == 1 }

// Chance is true with probability num/den.
func (r *Rand) Chance(num, den int) bool { return r.Intn(den) < num }

func Pick[T any](r *Rand, xs []T) T { return xs[r.Intn(len(xs))] }

// Fork derives an independent stream (so adding draws in one place does not shift another).
func (r *Rand) Fork(tag uint64) *Rand { return NewRand(r.U64() ^ tag*0xD6E8FEB86659FD93) }
