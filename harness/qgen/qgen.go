// Package qgen generates mostly-valid GraphQL operations over an ast.Schema from one PRNG.
// Operations are validated by gqlparser afterwards; invalid ones are discarded by the caller.
package qgen

import (
	"fmt"
	"sort"
	"strings"

	"github.com/vektah/gqlparser/v2/ast"

	"verifharness/gen"
)

type Options struct {
	MaxDepth       int
	MaxWidth       int
	SkipInclude    bool // emit @skip/@include
	Defer          bool // emit @defer on fragments
	Introspection  bool // may select __schema/__type at the root
	Typename       bool
	Variables      bool // use variables for arguments / directive conditions
	FragmentRate   int  // percent of selections that are fragments
	AliasRate      int  // percent of fields that get an alias
	OnlyFields     func(typ, field string) bool
	UserDirectives []string // field-level (FIELD location) directives usable in queries
}

type Gen struct {
	R      *gen.Rand
	S      *ast.Schema
	O      Options
	frags  []string // fragment definitions (text)
	fragOn map[string][]string
	nfrag  int
	nalias int
	vars   map[string]any
	vdefs  []string
	argMemo map[string]string
}

func New(r *gen.Rand, s *ast.Schema, o Options) *Gen {
	if o.MaxDepth == 0 {
		o.MaxDepth = 4
	}
	if o.MaxWidth == 0 {
		o.MaxWidth = 4
	}
	return &Gen{R: r, S: s, O: o}
}

// Operation returns the text of a document with one operation named Op plus its fragments, and variables.
func (g *Gen) Operation(kind ast.Operation) (string, map[string]any) {
	g.frags, g.fragOn, g.nfrag, g.nalias = nil, map[string][]string{}, 0, 0
	g.vars, g.vdefs, g.argMemo = map[string]any{}, nil, map[string]string{}
	var root *ast.Definition
	switch kind {
	case ast.Query:
		root = g.S.Query
	case ast.Mutation:
		root = g.S.Mutation
	case ast.Subscription:
		root = g.S.Subscription
	}
	body := g.selSet(root, g.O.MaxDepth, true, kind == ast.Subscription)
	var sb strings.Builder
	sb.WriteString(string(kind))
	sb.WriteString(" Op")
	if len(g.vdefs) > 0 {
		sb.WriteString("(" + strings.Join(g.vdefs, ", ") + ")")
	}
	sb.WriteString(" ")
	sb.WriteString(body)
	for _, f := range g.frags {
		sb.WriteString("\n")
		sb.WriteString(f)
	}
	return sb.String(), g.vars
}

func (g *Gen) fieldsOf(def *ast.Definition) []*ast.FieldDefinition {
	var out []*ast.FieldDefinition
	for _, f := range def.Fields {
		if strings.HasPrefix(f.Name, "__") {
			continue
		}
		if g.O.OnlyFields != nil && !g.O.OnlyFields(def.Name, f.Name) {
			continue
		}
		out = append(out, f)
	}
	return out
}

// overlapping returns type names usable as a type condition inside a selection on def.
func (g *Gen) overlapping(def *ast.Definition) []string {
	set := map[string]bool{def.Name: true}
	poss := g.S.GetPossibleTypes(def)
	for _, p := range poss {
		set[p.Name] = true
		for _, i := range p.Interfaces {
			set[i] = true
		}
		for _, t := range g.S.Types {
			if t.Kind == ast.Union {
				for _, m := range t.Types {
					if m == p.Name {
						set[t.Name] = true
					}
				}
			}
		}
	}
	out := make([]string, 0, len(set))
	for k := range set {
		out = append(out, k)
	}
	sort.Strings(out)
	return out
}

func (g *Gen) cond() string {
	if g.O.Variables && g.R.Chance(1, 3) {
		name := fmt.Sprintf("c%d", len(g.vdefs))
		v := g.R.Bool()
		switch g.R.Intn(3) {
		case 0:
			g.vdefs = append(g.vdefs, fmt.Sprintf("$%s: Boolean!", name))
			g.vars[name] = v
		case 1:
			g.vdefs = append(g.vdefs, fmt.Sprintf("$%s: Boolean! = %v", name, v))
		default:
			g.vdefs = append(g.vdefs, fmt.Sprintf("$%s: Boolean = %v", name, !v))
			g.vars[name] = v
		}
		return "$" + name
	}
	if g.R.Bool() {
		return "true"
	}
	return "false"
}

func (g *Gen) dirs(fragment bool) string {
	var out string
	if g.O.SkipInclude && g.R.Chance(1, 5) {
		if g.R.Bool() {
			out += " @skip(if: " + g.cond() + ")"
		} else {
			out += " @include(if: " + g.cond() + ")"
		}
		if g.R.Chance(1, 6) {
			if strings.Contains(out, "@skip") {
				out += " @include(if: " + g.cond() + ")"
			} else {
				out += " @skip(if: " + g.cond() + ")"
			}
		}
	}
	if fragment && g.O.Defer && g.R.Chance(1, 3) {
		switch g.R.Intn(4) {
		case 0:
			out += " @defer"
		case 1:
			out += fmt.Sprintf(" @defer(label: \"L%d\")", g.R.Intn(3))
		case 2:
			out += " @defer(if: " + g.cond() + ")"
		default:
			out += fmt.Sprintf(" @defer(if: %s, label: \"L%d\")", g.cond(), g.R.Intn(3))
		}
	}
	if !fragment && len(g.O.UserDirectives) > 0 && g.R.Chance(1, 6) {
		out += " @" + gen.Pick(g.R, g.O.UserDirectives)
	}
	return out
}

func (g *Gen) argValue(t *ast.Type) string {
	if t.Elem != nil {
		n := g.R.Intn(3)
		var items []string
		for i := 0; i < n; i++ {
			items = append(items, g.argValue(t.Elem))
		}
		return "[" + strings.Join(items, ", ") + "]"
	}
	def := g.S.Types[t.NamedType]
	if def != nil && def.Kind == ast.Enum {
		return gen.Pick(g.R, def.EnumValues).Name
	}
	if def != nil && def.Kind == ast.InputObject {
		var parts []string
		for _, f := range def.Fields {
			if f.Type.NonNull && f.DefaultValue == nil || g.R.Bool() {
				parts = append(parts, f.Name+": "+g.argValue(f.Type))
			}
		}
		return "{" + strings.Join(parts, ", ") + "}"
	}
	switch t.NamedType {
	case "Int":
		return fmt.Sprintf("%d", []int{0, 1, 2, 3, 5, 10, 100}[g.R.Intn(7)])
	case "Boolean":
		return fmt.Sprintf("%v", g.R.Bool())
	case "Float":
		return "1.5"
	case "ID":
		return fmt.Sprintf("\"id%d\"", g.R.Intn(4))
	default:
		return fmt.Sprintf("\"s%d\"", g.R.Intn(4))
	}
}

func (g *Gen) args(owner string, f *ast.FieldDefinition) string {
	if len(f.Arguments) == 0 {
		return ""
	}
	var parts []string
	for _, a := range f.Arguments {
		required := a.Type.NonNull && a.DefaultValue == nil
		if !required && g.R.Chance(1, 3) {
			continue
		}
		if g.O.Variables && a.Type.Elem == nil && g.R.Chance(1, 3) {
			name := fmt.Sprintf("v%d", len(g.vdefs))
			lit := g.argValue(a.Type)
			def := g.S.Types[a.Type.NamedType]
			if def != nil && def.Kind == ast.InputObject {
				parts = append(parts, a.Name+": "+lit)
				continue
			}
			// variable given through its default so the harness need not build JSON for it,
			// or through the variables map for plain scalars.
			switch {
			case a.Type.NamedType == "Int" && g.R.Bool():
				g.vdefs = append(g.vdefs, fmt.Sprintf("$%s: %s", name, a.Type.String()))
				var n int
				fmt.Sscanf(lit, "%d", &n)
				g.vars[name] = n
			default:
				g.vdefs = append(g.vdefs, fmt.Sprintf("$%s: %s = %s", name, a.Type.String(), lit))
			}
			parts = append(parts, a.Name+": $"+name)
			continue
		}
		parts = append(parts, a.Name+": "+g.argValue(a.Type))
	}
	if len(parts) == 0 {
		return ""
	}
	return "(" + strings.Join(parts, ", ") + ")"
}

func (g *Gen) isComposite(t *ast.Type) *ast.Definition {
	d := g.S.Types[t.Name()]
	if d == nil {
		return nil
	}
	switch d.Kind {
	case ast.Object, ast.Interface, ast.Union:
		return d
	}
	return nil
}

func (g *Gen) field(def *ast.Definition, depth int, root, single bool) string {
	fields := g.fieldsOf(def)
	if def.Kind == ast.Union {
		fields = nil
	}
	if g.O.Typename && (len(fields) == 0 || g.R.Chance(1, 8)) && !(root && single) {
		alias := ""
		if g.R.Intn(100) < g.O.AliasRate {
			alias = "tn: "
		}
		return alias + "__typename"
	}
	if root && g.O.Introspection && g.R.Chance(1, 6) {
		if g.R.Bool() {
			return "__schema { queryType { name } types { name } }"
		}
		return "__type(name: \"Query\") { name fields { name } }"
	}
	if len(fields) == 0 {
		return "__typename"
	}
	// prefer leaves when out of depth
	var cand []*ast.FieldDefinition
	for _, f := range fields {
		if depth <= 1 && g.isComposite(f.Type) != nil {
			continue
		}
		cand = append(cand, f)
	}
	if len(cand) == 0 {
		return "__typename"
	}
	f := gen.Pick(g.R, cand)
	var sb strings.Builder
	key := def.Name + "." + f.Name
	var argtxt string
	if len(f.Arguments) > 0 {
		if g.R.Chance(1, 2) {
			// unique alias, fresh arguments
			argtxt = g.args(def.Name, f)
			g.nalias++
			fmt.Fprintf(&sb, "%s_%d: ", f.Name, g.nalias)
		} else {
			// memoised arguments so that repeated occurrences can merge
			if m, ok := g.argMemo[f.Name]; ok {
				argtxt = m
			} else {
				argtxt = g.args(def.Name, f)
				g.argMemo[f.Name] = argtxt
			}
			if g.R.Intn(100) < g.O.AliasRate {
				fmt.Fprintf(&sb, "%s_m: ", f.Name)
			}
		}
	} else if g.R.Intn(100) < g.O.AliasRate {
		fmt.Fprintf(&sb, "%s_%c: ", f.Name, 'a'+rune(g.R.Intn(2)))
	}
	_ = key
	sb.WriteString(f.Name)
	sb.WriteString(argtxt)
	sb.WriteString(g.dirs(false))
	if child := g.isComposite(f.Type); child != nil {
		sb.WriteString(" ")
		sb.WriteString(g.selSet(child, depth-1, false, false))
	}
	return sb.String()
}

func (g *Gen) selSet(def *ast.Definition, depth int, root, single bool) string {
	n := 1 + g.R.Intn(g.O.MaxWidth)
	if single {
		n = 1
	}
	var parts []string
	for i := 0; i < n; i++ {
		roll := g.R.Intn(100)
		switch {
		case single || roll >= g.O.FragmentRate || depth <= 1:
			parts = append(parts, g.field(def, depth, root, single))
		case roll < g.O.FragmentRate/2:
			// inline fragment
			tc := ""
			target := def
			if g.R.Chance(3, 4) {
				name := gen.Pick(g.R, g.overlapping(def))
				tc = " on " + name
				target = g.S.Types[name]
			}
			parts = append(parts, "..."+tc+g.dirs(true)+" "+g.selSet(target, depth-1, false, false))
		default:
			// fragment spread: reuse an existing fragment on an overlapping type or define one
			over := g.overlapping(def)
			var reuse []string
			for _, o := range over {
				reuse = append(reuse, g.fragOn[o]...)
			}
			var name string
			if len(reuse) > 0 && g.R.Chance(1, 2) {
				name = gen.Pick(g.R, reuse)
			} else {
				on := gen.Pick(g.R, over)
				g.nfrag++
				name = fmt.Sprintf("F%d", g.nfrag)
				body := g.selSet(g.S.Types[on], depth-1, false, false)
				g.frags = append(g.frags, fmt.Sprintf("fragment %s on %s %s", name, on, body))
				g.fragOn[on] = append(g.fragOn[on], name)
			}
			parts = append(parts, "..."+name+g.dirs(true))
		}
	}
	return "{ " + strings.Join(parts, " ") + " }"
}
