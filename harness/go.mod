module verifharness

go 1.23.8

require (
	github.com/99designs/gqlgen v0.0.0
	github.com/google/uuid v1.6.0
	github.com/gorilla/websocket v1.5.0
	github.com/vektah/gqlparser/v2 v2.5.25
)

require (
	github.com/agnivade/levenshtein v1.2.1 // indirect
	github.com/go-viper/mapstructure/v2 v2.2.1 // indirect
	github.com/hashicorp/golang-lru/v2 v2.0.7 // indirect
	github.com/sosodev/duration v1.3.1 // indirect
	golang.org/x/mod v0.24.0 // indirect
	golang.org/x/sync v0.13.0 // indirect
	golang.org/x/text v0.24.0 // indirect
	golang.org/x/tools v0.32.0 // indirect
	gopkg.in/yaml.v3 v3.0.1 // indirect
)

replace github.com/99designs/gqlgen => /repo
