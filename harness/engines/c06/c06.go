// Package c06: results are independent of resolver scheduling; mutation roots run serially.  Every plan of
// the operation corpus is executed again under adversarial resolver delay plans (random, reversed
// completion order, one straggler) on probe servers with worker_limit 0, 1 and 2 (thorough: all 8
// configurations, and probes built with the race detector); every schedule must produce the single
// response the model predicts, and the start/end events of mutation root fields must be serial.
package c06

import (
	"verifharness/engines/c01"
	"verifharness/engines/xeng"
	"verifharness/gen"
)

func Run(c *gen.Ctx) error {
	cfgs := []xeng.Config{xeng.QuickConfigs[0], xeng.QuickConfigs[1], xeng.ThoroughConfigs[2]}
	nops, perOp := 25, 1
	if c.Thorough() {
		cfgs = xeng.ThoroughConfigs
		nops, perOp = 200, 2
	}
	return c01.RunFull(c, "C06", cfgs, nops, perOp, false, true)
}
