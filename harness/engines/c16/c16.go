// Package c16 runs gqlgen's introspection (generated resolvers + graphql/introspection) on arbitrary schemas
// served through Config.Schema of a probe server generated at check time, and prints (a) the schema as
// gqlparser loaded it independently, (b) the description a client received for the full standard
// introspection query, (c) responses to random introspection query shapes with the Introspection extension
// installed or not - as Coq terms for Corr_C16.
package c16

import (
	"encoding/json"
	"fmt"
	"sort"
	"strings"

	"github.com/vektah/gqlparser/v2"
	"github.com/vektah/gqlparser/v2/ast"

	"verifharness/engines/xeng"
	"verifharness/gen"
)

// cstr prints any Go string as a Coq string literal, injectively (bytes outside printable ASCII and the
// backslash are escaped), so that equality of terms is equality of the Go strings.
func cstr(s string) string {
	var sb strings.Builder
	for i := 0; i < len(s); i++ {
		c := s[i]
		switch {
		case c == '\\':
			sb.WriteString("\\\\")
		case c < 0x20 || c > 0x7e:
			fmt.Fprintf(&sb, "\\x%02x", c)
		default:
			sb.WriteByte(c)
		}
	}
	return gen.Str(sb.String())
}

func ostr(p *string) string {
	if p == nil {
		return "None"
	}
	return "(Some " + cstr(*p) + ")"
}

// ---- ast.Schema -> sch ------------------------------------------------------------------------------------

func tyCoq(t *ast.Type) string {
	if t.Elem != nil {
		return fmt.Sprintf("(TyList %s %s)", tyCoq(t.Elem), gen.Bool(t.NonNull))
	}
	return fmt.Sprintf("(TyNamed %s %s)", cstr(t.NamedType), gen.Bool(t.NonNull))
}

func deprCoq(ds ast.DirectiveList) string {
	d := ds.ForName("deprecated")
	if d == nil {
		return "None"
	}
	a := d.Arguments.ForName("reason")
	if a == nil {
		return "(Some None)"
	}
	return "(Some (Some " + cstr(a.Value.Raw) + "))"
}

func defCoq(v *ast.Value) string {
	if v == nil {
		return "None"
	}
	return "(Some " + cstr(v.String()) + ")"
}

func argsCoq(as ast.ArgumentDefinitionList) string {
	var items []string
	for _, a := range as {
		items = append(items, fmt.Sprintf("{| iv_name := %s; iv_desc := %s; iv_type := %s; iv_default := %s; iv_depr := %s |}",
			cstr(a.Name), cstr(a.Description), tyCoq(a.Type), defCoq(a.DefaultValue), deprCoq(a.Directives)))
	}
	return gen.List(items)
}

var kindCoq = map[ast.DefinitionKind]string{ast.Scalar: "KScalar", ast.Object: "KObj", ast.Interface: "KIface", ast.Union: "KUnion", ast.Enum: "KEnum", ast.InputObject: "KInput"}
var kindOfName = map[string]string{"SCALAR": "KScalar", "OBJECT": "KObj", "INTERFACE": "KIface", "UNION": "KUnion", "ENUM": "KEnum", "INPUT_OBJECT": "KInput"}

func strsCoq(l []string) string {
	var items []string
	for _, s := range l {
		items = append(items, cstr(s))
	}
	return gen.List(items)
}

func optName(d *ast.Definition) string {
	if d == nil {
		return "None"
	}
	return "(Some " + cstr(d.Name) + ")"
}

// SchemaCoq prints the schema; types are listed in the order gqlparser's loader met their definitions (built-in
// prelude first, then by source position), which is the order of its PossibleTypes lists.  Directives are shuffled
// with r (the model sorts them).
func SchemaCoq(s *ast.Schema, r *gen.Rand) string {
	var names []string
	for n := range s.Types {
		names = append(names, n)
	}
	sort.Strings(names)
	sort.SliceStable(names, func(i, j int) bool {
		a, b := s.Types[names[i]], s.Types[names[j]]
		if a.BuiltIn != b.BuiltIn {
			return a.BuiltIn
		}
		if a.Position == nil || b.Position == nil {
			return a.Position == nil && b.Position != nil
		}
		return a.Position.Start < b.Position.Start
	})
	var types []string
	for _, n := range names {
		d := s.Types[n]
		var fields, enums []string
		for _, f := range d.Fields {
			fields = append(fields, fmt.Sprintf("{| fl_name := %s; fl_desc := %s; fl_args := %s; fl_type := %s; fl_default := %s; fl_depr := %s |}",
				cstr(f.Name), cstr(f.Description), argsCoq(f.Arguments), tyCoq(f.Type), defCoq(f.DefaultValue), deprCoq(f.Directives)))
		}
		for _, e := range d.EnumValues {
			enums = append(enums, fmt.Sprintf("{| en_name := %s; en_desc := %s; en_depr := %s |}", cstr(e.Name), cstr(e.Description), deprCoq(e.Directives)))
		}
		spec := "None"
		if sb := d.Directives.ForName("specifiedBy"); sb != nil {
			if u := sb.Arguments.ForName("url"); u != nil {
				spec = "(Some " + cstr(u.Value.Raw) + ")"
			}
		}
		types = append(types, fmt.Sprintf("{| td_kind := %s; td_name := %s; td_desc := %s; td_fields := %s; td_ifaces := %s; td_members := %s; td_enums := %s; td_specified := %s; td_oneof := %s |}",
			kindCoq[d.Kind], cstr(d.Name), cstr(d.Description), gen.List(fields), strsCoq(d.Interfaces), strsCoq(d.Types), gen.List(enums), spec, gen.Bool(d.Directives.ForName("oneOf") != nil)))
	}
	var dnames []string
	for n := range s.Directives {
		dnames = append(dnames, n)
	}
	sort.Strings(dnames)
	for i := len(dnames) - 1; i > 0; i-- {
		j := r.Intn(i + 1)
		dnames[i], dnames[j] = dnames[j], dnames[i]
	}
	var dirs []string
	for _, n := range dnames {
		d := s.Directives[n]
		var locs []string
		for _, l := range d.Locations {
			locs = append(locs, string(l))
		}
		dirs = append(dirs, fmt.Sprintf("{| dd_name := %s; dd_desc := %s; dd_locs := %s; dd_args := %s; dd_rep := %s |}",
			cstr(d.Name), cstr(d.Description), strsCoq(locs), argsCoq(d.Arguments), gen.Bool(d.IsRepeatable)))
	}
	return fmt.Sprintf("{| sc_desc := %s; sc_types := %s; sc_query := %s; sc_mutation := %s; sc_subscription := %s; sc_dirs := %s |}",
		cstr(s.Description), gen.List(types), optName(s.Query), optName(s.Mutation), optName(s.Subscription), gen.List(dirs))
}

// ---- the full standard introspection query and the client's view of its result -----------------------------

const typeRef = `kind name ofType { kind name ofType { kind name ofType { kind name ofType { kind name ofType { kind name ofType { kind name ofType { kind name ofType { kind name ofType { kind name } } } } } } } } }`

// StandardQuery is graphql-js's getIntrospectionQuery with every option on (descriptions, specifiedByUrl,
// directiveIsRepeatable, schemaDescription, inputValueDeprecation, oneOf) and a deeper TypeRef.
const StandardQuery = `query IntrospectionQuery {
  __schema {
    description
    queryType { name } mutationType { name } subscriptionType { name }
    types { ...FullType }
    directives { name description isRepeatable locations args(includeDeprecated: true) { ...InputValue } }
  }
}
fragment FullType on __Type {
  kind name description specifiedByURL isOneOf
  fields(includeDeprecated: true) { name description args(includeDeprecated: true) { ...InputValue } type { ...TypeRef } isDeprecated deprecationReason }
  inputFields(includeDeprecated: true) { ...InputValue }
  interfaces { ...TypeRef }
  enumValues(includeDeprecated: true) { name description isDeprecated deprecationReason }
  possibleTypes { ...TypeRef }
}
fragment InputValue on __InputValue { name description type { ...TypeRef } defaultValue isDeprecated deprecationReason }
fragment TypeRef on __Type { ` + typeRef + ` }
`

type jRef struct {
	Kind   string  `json:"kind"`
	Name   *string `json:"name"`
	OfType *jRef   `json:"ofType"`
}
type jInput struct {
	Name              string  `json:"name"`
	Description       *string `json:"description"`
	Type              jRef    `json:"type"`
	DefaultValue      *string `json:"defaultValue"`
	IsDeprecated      bool    `json:"isDeprecated"`
	DeprecationReason *string `json:"deprecationReason"`
}
type jField struct {
	Name              string   `json:"name"`
	Description       *string  `json:"description"`
	Args              []jInput `json:"args"`
	Type              jRef     `json:"type"`
	IsDeprecated      bool     `json:"isDeprecated"`
	DeprecationReason *string  `json:"deprecationReason"`
}
type jEnum struct {
	Name              string  `json:"name"`
	Description       *string `json:"description"`
	IsDeprecated      bool    `json:"isDeprecated"`
	DeprecationReason *string `json:"deprecationReason"`
}
type jType struct {
	Kind           string   `json:"kind"`
	Name           *string  `json:"name"`
	Description    *string  `json:"description"`
	SpecifiedByURL *string  `json:"specifiedByURL"`
	IsOneOf        bool     `json:"isOneOf"`
	Fields         []jField `json:"fields"`
	InputFields    []jInput `json:"inputFields"`
	Interfaces     []jRef   `json:"interfaces"`
	EnumValues     []jEnum  `json:"enumValues"`
	PossibleTypes  []jRef   `json:"possibleTypes"`
}
type jDir struct {
	Name         string   `json:"name"`
	Description  *string  `json:"description"`
	IsRepeatable bool     `json:"isRepeatable"`
	Locations    []string `json:"locations"`
	Args         []jInput `json:"args"`
}
type jName struct {
	Name string `json:"name"`
}
type jSchema struct {
	Description      *string `json:"description"`
	QueryType        *jName  `json:"queryType"`
	MutationType     *jName  `json:"mutationType"`
	SubscriptionType *jName  `json:"subscriptionType"`
	Types            []jType `json:"types"`
	Directives       []jDir  `json:"directives"`
}

func refCoq(r *jRef) (string, error) {
	switch r.Kind {
	case "NON_NULL", "LIST":
		if r.OfType == nil {
			return "", fmt.Errorf("type reference deeper than the query's TypeRef fragment")
		}
		in, err := refCoq(r.OfType)
		if err != nil {
			return "", err
		}
		if r.Kind == "LIST" {
			return "(RList " + in + ")", nil
		}
		return "(RNonNull " + in + ")", nil
	}
	k, ok := kindOfName[r.Kind]
	if !ok || r.Name == nil {
		return "", fmt.Errorf("type reference with kind %q and no name", r.Kind)
	}
	return fmt.Sprintf("(RNamed %s %s)", k, cstr(*r.Name)), nil
}

func refsCoq(rs []jRef, sorted bool) (string, error) {
	if sorted {
		rs = append([]jRef{}, rs...)
		sort.SliceStable(rs, func(i, j int) bool {
			a, b := "", ""
			if rs[i].Name != nil {
				a = *rs[i].Name
			}
			if rs[j].Name != nil {
				b = *rs[j].Name
			}
			return a < b
		})
	}
	var items []string
	for i := range rs {
		s, err := refCoq(&rs[i])
		if err != nil {
			return "", err
		}
		items = append(items, s)
	}
	return gen.List(items), nil
}

func inputsCoq(as []jInput) (string, error) {
	var items []string
	for i := range as {
		a := &as[i]
		t, err := refCoq(&a.Type)
		if err != nil {
			return "", err
		}
		items = append(items, fmt.Sprintf("{| ri_name := %s; ri_desc := %s; ri_type := %s; ri_default := %s; ri_isdep := %s; ri_reason := %s |}",
			cstr(a.Name), ostr(a.Description), t, ostr(a.DefaultValue), gen.Bool(a.IsDeprecated), ostr(a.DeprecationReason)))
	}
	return gen.List(items), nil
}

func optJName(n *jName) string {
	if n == nil {
		return "None"
	}
	return "(Some " + cstr(n.Name) + ")"
}

// ObservedCoq turns the JSON data of the standard query into the model's r_schema term.
func ObservedCoq(data json.RawMessage) (string, error) {
	var top struct {
		Schema *jSchema `json:"__schema"`
	}
	if err := json.Unmarshal(data, &top); err != nil {
		return "", err
	}
	if top.Schema == nil {
		return "", fmt.Errorf("__schema is null")
	}
	s := top.Schema
	var types []string
	for i := range s.Types {
		t := &s.Types[i]
		k, ok := kindOfName[t.Kind]
		if !ok || t.Name == nil {
			return "", fmt.Errorf("type entry with kind %q", t.Kind)
		}
		var fields, enums []string
		for j := range t.Fields {
			f := &t.Fields[j]
			as, err := inputsCoq(f.Args)
			if err != nil {
				return "", err
			}
			ft, err := refCoq(&f.Type)
			if err != nil {
				return "", err
			}
			fields = append(fields, fmt.Sprintf("{| rf_name := %s; rf_desc := %s; rf_args := %s; rf_type := %s; rf_isdep := %s; rf_reason := %s |}",
				cstr(f.Name), ostr(f.Description), as, ft, gen.Bool(f.IsDeprecated), ostr(f.DeprecationReason)))
		}
		for _, e := range t.EnumValues {
			enums = append(enums, fmt.Sprintf("{| re_name := %s; re_desc := %s; re_isdep := %s; re_reason := %s |}",
				cstr(e.Name), ostr(e.Description), gen.Bool(e.IsDeprecated), ostr(e.DeprecationReason)))
		}
		ins, err := inputsCoq(t.InputFields)
		if err != nil {
			return "", err
		}
		ifs, err := refsCoq(t.Interfaces, false)
		if err != nil {
			return "", err
		}
		pts, err := refsCoq(t.PossibleTypes, false)
		if err != nil {
			return "", err
		}
		types = append(types, fmt.Sprintf("{| rt_kind := %s; rt_name := %s; rt_desc := %s; rt_spec := %s; rt_fields := %s; rt_inputs := %s; rt_ifaces := %s; rt_enums := %s; rt_possible := %s; rt_oneof := %s |}",
			k, cstr(*t.Name), ostr(t.Description), ostr(t.SpecifiedByURL), gen.List(fields), ins, ifs, gen.List(enums), pts, gen.Bool(t.IsOneOf)))
	}
	var dirs []string
	for i := range s.Directives {
		d := &s.Directives[i]
		as, err := inputsCoq(d.Args)
		if err != nil {
			return "", err
		}
		dirs = append(dirs, fmt.Sprintf("{| rd_name := %s; rd_desc := %s; rd_locs := %s; rd_args := %s; rd_rep := %s |}",
			cstr(d.Name), ostr(d.Description), strsCoq(d.Locations), as, gen.Bool(d.IsRepeatable)))
	}
	return fmt.Sprintf("{| rs_desc := %s; rs_query := %s; rs_mutation := %s; rs_subscription := %s; rs_types := %s; rs_dirs := %s |}",
		ostr(s.Description), optJName(s.QueryType), optJName(s.MutationType), optJName(s.SubscriptionType), gen.List(types), gen.List(dirs)), nil
}

// ---- random introspection query shapes ----------------------------------------------------------------------

type metaField struct {
	name   string
	target string // "" for leaves
	incdep bool   // takes includeDeprecated
}

var metaSchema = map[string][]metaField{
	"__Schema": {{"description", "", false}, {"types", "__Type", false}, {"queryType", "__Type", false}, {"mutationType", "__Type", false},
		{"subscriptionType", "__Type", false}, {"directives", "__Directive", false}, {"__typename", "", false}},
	"__Type": {{"kind", "", false}, {"name", "", false}, {"description", "", false}, {"specifiedByURL", "", false}, {"isOneOf", "", false},
		{"fields", "__Field", true}, {"inputFields", "__InputValue", false}, {"interfaces", "__Type", false}, {"possibleTypes", "__Type", false},
		{"enumValues", "__EnumValue", true}, {"ofType", "__Type", false}, {"__typename", "", false}},
	"__Field": {{"name", "", false}, {"description", "", false}, {"args", "__InputValue", false}, {"type", "__Type", false},
		{"isDeprecated", "", false}, {"deprecationReason", "", false}, {"__typename", "", false}},
	"__InputValue": {{"name", "", false}, {"description", "", false}, {"type", "__Type", false}, {"defaultValue", "", false},
		{"isDeprecated", "", false}, {"deprecationReason", "", false}, {"__typename", "", false}},
	"__EnumValue": {{"name", "", false}, {"description", "", false}, {"isDeprecated", "", false}, {"deprecationReason", "", false}, {"__typename", "", false}},
	"__Directive": {{"name", "", false}, {"description", "", false}, {"isRepeatable", "", false}, {"locations", "", false}, {"args", "__InputValue", false}, {"__typename", "", false}},
}

// qsel is a collected field (what the model evaluates); Parent is the meta type it is selected on.
type qsel struct {
	Alias, Name string
	IncDep      bool
	ArgName     string
	Subs        []*qsel
	parent      string
	target      string
	hasIncDep   bool
}

func (q *qsel) coq() string {
	var subs []string
	for _, s := range q.Subs {
		subs = append(subs, s.coq())
	}
	return fmt.Sprintf("Q %s %s %s %s %s", cstr(q.Alias), cstr(q.Name), gen.Bool(q.IncDep), cstr(q.ArgName), gen.List(subs))
}

// gqlparser's MaxIntrospectionDepth rule refuses a third nested fields/interfaces/possibleTypes/inputFields
var depthCounted = map[string]bool{"fields": true, "interfaces": true, "possibleTypes": true, "inputFields": true}

func genSels(r *gen.Rand, typ string, depth int) []*qsel { return genSelsL(r, typ, depth, 0) }

func genSelsL(r *gen.Rand, typ string, depth, lists int) []*qsel {
	fields := metaSchema[typ]
	n := 1 + r.Intn(5)
	var out []*qsel
	used := map[string]bool{}
	for i := 0; i < n; i++ {
		f := gen.Pick(r, fields)
		if f.target != "" && depth <= 0 {
			continue
		}
		nl := lists
		if depthCounted[f.name] {
			nl++
			if nl >= 3 {
				continue
			}
		}
		alias := f.name
		if used[alias] || r.Chance(1, 4) {
			alias = fmt.Sprintf("a%d_%s", i, strings.TrimLeft(f.name, "_"))
		}
		if used[alias] {
			continue
		}
		used[alias] = true
		q := &qsel{Alias: alias, Name: f.name, parent: typ, target: f.target, hasIncDep: f.incdep}
		if f.incdep {
			q.IncDep = r.Bool()
		}
		if f.target != "" {
			q.Subs = genSelsL(r, f.target, depth-1, nl)
		}
		out = append(out, q)
	}
	if len(out) == 0 {
		out = append(out, &qsel{Alias: "name", Name: gen.Pick(r, []string{"name", "__typename"}), parent: typ})
		if typ == "__Schema" {
			out[0].Name, out[0].Alias = "description", "description"
		}
	}
	return out
}

// renderer: prints a collected tree as query text that hides its shape behind aliases, inline fragments, named
// fragments, split-and-merged fields and variables; the collected tree is unchanged by construction.
type renderer struct {
	r     *gen.Rand
	frags []string
	vars  []string // declarations
	vals  map[string]any
	nfrag int
	nvar  int
	used  map[string]int
	noRootCond bool
}

func (rd *renderer) arg(q *qsel) string {
	var parts []string
	boolArg := func(name string, v bool) {
		if rd.r.Chance(1, 3) {
			vn := fmt.Sprintf("v%d", rd.nvar)
			rd.nvar++
			if rd.r.Bool() {
				rd.vars = append(rd.vars, fmt.Sprintf("$%s: Boolean", vn))
				rd.vals[vn] = v
			} else {
				rd.vars = append(rd.vars, fmt.Sprintf("$%s: Boolean = %v", vn, v))
			}
			parts = append(parts, name+": $"+vn)
			rd.used["variable"]++
		} else {
			parts = append(parts, fmt.Sprintf("%s: %v", name, v))
		}
	}
	if q.hasIncDep && (q.IncDep || rd.r.Bool()) {
		boolArg("includeDeprecated", q.IncDep)
	}
	if q.Name == "__type" && q.parent == "" {
		if rd.r.Chance(1, 2) {
			vn := fmt.Sprintf("v%d", rd.nvar)
			rd.nvar++
			rd.vars = append(rd.vars, fmt.Sprintf("$%s: String!", vn))
			rd.vals[vn] = q.ArgName
			parts = append(parts, "name: $"+vn)
			rd.used["variable"]++
		} else {
			parts = append(parts, fmt.Sprintf("name: %q", q.ArgName))
		}
	}
	if len(parts) == 0 {
		return ""
	}
	return "(" + strings.Join(parts, ", ") + ")"
}

func (rd *renderer) field(q *qsel, subs []*qsel, typ string) string {
	head := q.Name
	if q.Alias != q.Name {
		head = q.Alias + ": " + q.Name
		rd.used["alias"]++
	}
	head += rd.arg(q)
	if q.target == "" && q.Subs == nil {
		return head
	}
	return head + " { " + rd.set(subs, q.target) + " }"
}

// set renders a selection set on meta type typ.
func (rd *renderer) set(sels []*qsel, typ string) string {
	var parts []string
	var tail []string
	cut := len(sels)
	if len(sels) >= 2 && rd.r.Chance(1, 2) {
		cut = 1 + rd.r.Intn(len(sels)-1)
	}
	for i, q := range sels[:cut] {
		_ = i
		// split a composite field into two occurrences that must be merged
		if len(q.Subs) >= 2 && rd.r.Chance(1, 4) && !q.hasIncDep && q.Name != "__type" {
			k := 1 + rd.r.Intn(len(q.Subs)-1)
			parts = append(parts, rd.field(q, q.Subs[:k], typ))
			tail = append(tail, rd.field(q, q.Subs[k:], typ))
			rd.used["merged_field"]++
			continue
		}
		parts = append(parts, rd.field(q, q.Subs, typ))
	}
	if cut < len(sels) {
		inner := rd.set(sels[cut:], typ)
		k := rd.r.Intn(4)
		if rd.noRootCond && !strings.HasPrefix(typ, "__") {
			// the probe's generated executor knows its own root type as "Query": a type condition naming the
			// served schema's differently-named root would not apply (an artefact of serving a foreign schema)
			k = 2 + rd.r.Intn(2)
		}
		switch k {
		case 0:
			parts = append(parts, "... on "+typ+" { "+inner+" }")
			rd.used["inline_fragment"]++
		case 1:
			name := fmt.Sprintf("F%d", rd.nfrag)
			rd.nfrag++
			rd.frags = append(rd.frags, "fragment "+name+" on "+typ+" { "+inner+" }")
			parts = append(parts, "..."+name)
			rd.used["fragment_spread"]++
		case 2:
			vn := fmt.Sprintf("v%d", rd.nvar)
			rd.nvar++
			rd.vars = append(rd.vars, fmt.Sprintf("$%s: Boolean!", vn))
			rd.vals[vn] = true
			parts = append(parts, "... @include(if: $"+vn+") { "+inner+" }")
			rd.used["include_variable"]++
		default:
			parts = append(parts, "... { "+inner+" }")
			rd.used["bare_inline_fragment"]++
		}
	}
	parts = append(parts, tail...)
	return strings.Join(parts, " ")
}

// Render returns query text and variables for root fields on the query type qname.
func Render(r *gen.Rand, roots []*qsel, qname string) (string, map[string]any, map[string]int) {
	rd := &renderer{r: r, vals: map[string]any{}, used: map[string]int{}, noRootCond: qname != "Query"}
	body := rd.set(roots, qname)
	head := "query Q"
	if len(rd.vars) > 0 {
		head += "(" + strings.Join(rd.vars, ", ") + ")"
	}
	return head + " { " + body + " }\n" + strings.Join(rd.frags, "\n"), rd.vals, rd.used
}

// ---- JSON -> jv (key order preserved) -----------------------------------------------------------------------

func jvCoq(dec *json.Decoder) (string, error) {
	tok, err := dec.Token()
	if err != nil {
		return "", err
	}
	switch t := tok.(type) {
	case json.Delim:
		switch t {
		case '{':
			var items []string
			for dec.More() {
				k, err := dec.Token()
				if err != nil {
					return "", err
				}
				v, err := jvCoq(dec)
				if err != nil {
					return "", err
				}
				items = append(items, fmt.Sprintf("(%s, %s)", cstr(k.(string)), v))
			}
			_, _ = dec.Token()
			return "(JO " + gen.List(items) + ")", nil
		case '[':
			var items []string
			for dec.More() {
				v, err := jvCoq(dec)
				if err != nil {
					return "", err
				}
				items = append(items, v)
			}
			_, _ = dec.Token()
			return "(JA " + gen.List(items) + ")", nil
		}
	case string:
		return "(JS " + cstr(t) + ")", nil
	case bool:
		return "(JB " + gen.Bool(t) + ")", nil
	case nil:
		return "JN", nil
	case json.Number:
		return "(JS " + cstr("number:"+t.String()) + ")", nil
	}
	return "", fmt.Errorf("unexpected token %v", tok)
}

func loadSchema(sdl string) (*ast.Schema, error) {
	s, err := gqlparser.LoadSchema(&ast.Source{Name: "alt.graphqls", Input: sdl})
	if err != nil {
		return nil, err
	}
	return s, nil
}

var _ = xeng.ProbeSchema
