package c16

import (
	"bytes"
	"encoding/json"
	"fmt"
	"sort"
	"strings"

	"github.com/vektah/gqlparser/v2/ast"

	"verifharness/engines/xeng"
	"verifharness/gen"
)

// pinned schemas: the three places where the pinned commit differed, interface hierarchies, every default kind.
var pinnedSchemas = []string{
	`type Query { live(old: Int @deprecated(reason: "use new"), new: Int): Int  gone(x: Int): Int @deprecated }`,
	`interface Node { id: ID! } interface Res implements Node { id: ID! url: String } type Img implements Res & Node { id: ID! url: String } type Query { n: Node r: Res }`,
	`enum E { A @deprecated B @deprecated(reason: "why") C } input In { a: Int @deprecated b: Int @deprecated(reason: "r") c: Int } type Query { f(i: In, e: E): E }`,
	`directive @tag(name: String = "x" @deprecated, weight: Int @deprecated(reason: "unused")) repeatable on FIELD_DEFINITION | OBJECT
type Query @tag { f: Int @tag(name: "a") @tag(name: "b") }`,
	`"about the schema" schema { query: Q }
scalar When @specifiedBy(url: "https://example.org/when")
input Pick @oneOf { a: Int b: String }
enum Color { RED GREEN }
input Filter { n: Int = 3 f: Float = 1.5 s: String = "x y" b: Boolean = true c: Color = GREEN l: [Int!] = [1, 2] o: Pick = {a: 1} z: String = null ll: [[Int]] = [[1], []] }
type Q { find(filter: Filter = {n: 4, l: []}, pick: Pick, at: When, many: [[When!]!]!): [[[Color!]]!] }`,
	`union U = B | A  type A { x: Int } type B { y: U } type Query { u: U us: [U!]! }`,
}

type caseDescr struct {
	Kind    string         `json:"kind"`
	Config  string         `json:"config"`
	Schema  string         `json:"schema"`
	Enabled bool           `json:"enabled"`
	Query   string         `json:"query"`
	Vars    map[string]any `json:"variables,omitempty"`
	Resp    string         `json:"response,omitempty"`
	Sig     string         `json:"sig,omitempty"`
}

// dataCoq prints the response data as jv; the values of the top-level keys in opaque are replaced by the model's marker.
func dataCoq(raw json.RawMessage, opaque map[string]bool) (string, error) {
	if len(raw) == 0 || string(raw) == "null" {
		return "JN", nil
	}
	dec := json.NewDecoder(bytes.NewReader(raw))
	dec.UseNumber()
	tok, err := dec.Token()
	if err != nil {
		return "", err
	}
	if d, ok := tok.(json.Delim); !ok || d != '{' {
		return "", fmt.Errorf("data is not an object")
	}
	var items []string
	for dec.More() {
		k, err := dec.Token()
		if err != nil {
			return "", err
		}
		v, err := jvCoq(dec)
		if err != nil {
			return "", err
		}
		if opaque[k.(string)] && v != "JN" {
			v = `(JS "<value of a user field>"%string)`
		}
		items = append(items, fmt.Sprintf("(%s, %s)", cstr(k.(string)), v))
	}
	return "(JO " + gen.List(items) + ")", nil
}

type respJSON struct {
	Data   json.RawMessage `json:"data"`
	Errors []struct {
		Message string `json:"message"`
		Path    []any  `json:"path"`
	} `json:"errors"`
}

func genRoots(r *gen.Rand, s *ast.Schema, userFields []string, forceIntro bool) []*qsel {
	var names []string
	for n := range s.Types {
		names = append(names, n)
	}
	sort.Strings(names)
	var roots []*qsel
	used := map[string]bool{}
	n := 1 + r.Intn(4)
	for i := 0; i < n; i++ {
		var q *qsel
		k := r.Intn(10)
		if forceIntro && i == 0 {
			k = r.Intn(7)
		}
		switch {
		case k < 4:
			q = &qsel{Name: "__schema", target: "__Schema", Subs: genSels(r, "__Schema", 1+r.Intn(4))}
		case k < 7:
			an := gen.Pick(r, names)
			if r.Chance(1, 8) {
				an = "NoSuchType"
			}
			q = &qsel{Name: "__type", ArgName: an, target: "__Type", Subs: genSels(r, "__Type", 1+r.Intn(4))}
		case k < 8 || len(userFields) == 0:
			q = &qsel{Name: "__typename"}
		default:
			q = &qsel{Name: gen.Pick(r, userFields)}
		}
		q.Alias = q.Name
		if used[q.Alias] || r.Chance(1, 3) {
			q.Alias = fmt.Sprintf("k%d", i)
		}
		used[q.Alias] = true
		roots = append(roots, q)
	}
	return roots
}

// userFieldText: how a user root field of the probe schema is written (leaf or with a sub-selection).
var userFieldText = map[string]string{"scalar": "scalar", "strict": "strict", "a": "a { id inl }", "items": "items { name }"}

func Run(c *gen.Ctx) error {
	r := gen.NewRand(c.Seed)
	meta := &gen.Meta{Property: "C16", Distribution: map[string]any{}}
	cfgs := xeng.QuickConfigs
	probes, err := xeng.BuildProbes(xeng.ProbeSchema, cfgs, nil)
	if err != nil {
		return err
	}
	for _, p := range probes {
		if p.Built.Bin == "" {
			meta.Direct = append(meta.Direct, gen.DirectFinding{Signature: "probe-does-not-build", What: "generation or compilation of the probe server failed for configuration " + p.Cfg.Name + ": " + p.Built.GenErr + p.Built.BuildErr, Replay: p.Cfg})
		}
	}
	if len(meta.Direct) > 0 {
		return meta.Write(c.OutDir)
	}
	nRandom, nShapes := 24, 6
	if c.Thorough() {
		nRandom, nShapes = 300, 12
	}
	type sch struct {
		sdl    string
		loaded *ast.Schema
		pinned bool
	}
	var schemas []sch
	add := func(sdl string, pinned bool) bool {
		s, err := loadSchema(sdl)
		if err != nil {
			return false
		}
		schemas = append(schemas, sch{sdl, s, pinned})
		return true
	}
	for _, p := range pinnedSchemas {
		if !add(p, true) {
			return fmt.Errorf("pinned schema does not load: %s", p)
		}
	}
	add(xeng.ProbeSchema, true)
	features := map[string]int{}
	rejected := 0
	sr := r.Fork(1)
	for len(schemas) < len(pinnedSchemas)+1+nRandom {
		sdl, fs := Generate(sr)
		if !add(sdl, false) {
			rejected++
			if rejected > 50*nRandom+100 {
				return fmt.Errorf("schema generator produces invalid schemas")
			}
			continue
		}
		for k, v := range fs {
			features[k] += v
		}
	}
	meta.Distribution["schemas"] = len(schemas)
	meta.Distribution["generated_schemas_rejected_by_gqlparser"] = rejected
	meta.Distribution["schema_features"] = features

	const batch = 6
	var descrAll []any
	shapeUse := map[string]int{}
	counts := map[string]int{}
	distinct := map[string]bool{}
	qr := r.Fork(2)
	for b0 := 0; b0 < len(schemas); b0 += batch {
		b1 := b0 + batch
		if b1 > len(schemas) {
			b1 = len(schemas)
		}
		kind := fmt.Sprintf("b%d", b0/batch)
		var pre strings.Builder
		for i := b0; i < b1; i++ {
			fmt.Fprintf(&pre, "Definition s%d : sch := %s.\n", i, SchemaCoq(schemas[i].loaded, r.Fork(uint64(100+i))))
		}
		cf := &gen.CaseFile{Dir: c.OutDir, Prop: "C16", Kind: kind, Requires: []string{"Base.Prelude", "Model.Introspect", "Model.IntroQuery", "Corr.Corr_C16"},
			Type: "c16_case", Checks: []gen.Check{{Label: "corr", Fn: "c16_corr"}, {Label: "mon", Fn: "c16_mon"}, {Label: "monmodel", Fn: "c16_monmodel"}},
			Shard: 400, Preamble: pre.String()}
		var descr []any
		for i := b0; i < b1; i++ {
			s := schemas[i]
			qname := s.loaded.Query.Name
			// which probes see this schema
			var ps []xeng.Probe
			if s.pinned {
				ps = probes
			} else {
				ps = []xeng.Probe{probes[i%len(probes)]}
			}
			for _, p := range ps {
				var cases []xeng.Case
				type pending struct {
					kind    string
					enabled bool
					roots   []*qsel
					query   string
					vars    map[string]any
				}
				var pend []pending
				cases = append(cases, xeng.Case{ID: 0, Query: StandardQuery, OperationName: "IntrospectionQuery", Oracle: xeng.NewOracle(), SchemaSDL: s.sdl, Introspection: true})
				pend = append(pend, pending{kind: "std", enabled: true, query: StandardQuery})
				for k := 0; k < nShapes; k++ {
					enabled := k%2 == 0
					roots := genRoots(qr, s.loaded, nil, true)
					q, vars, used := Render(qr, roots, qname)
					for u, n := range used {
						shapeUse[u] += n
					}
					cases = append(cases, xeng.Case{ID: len(cases), Query: q, Variables: vars, OperationName: "Q", Oracle: xeng.NewOracle(), SchemaSDL: s.sdl, Introspection: enabled})
					pend = append(pend, pending{"shape", enabled, roots, q, vars})
				}
				// the standard query once more, after everything else this schema value has answered: the same answer
				cases = append(cases, xeng.Case{ID: len(cases), Query: StandardQuery, OperationName: "IntrospectionQuery", Oracle: xeng.NewOracle(), SchemaSDL: s.sdl, Introspection: true})
				pend = append(pend, pending{kind: "std", enabled: true, query: StandardQuery})
				results, err := xeng.RunAll(p.Built.Bin, cases)
				if err != nil {
					return err
				}
				for k, res := range results {
					pd := pend[k]
					d := caseDescr{Kind: pd.kind, Config: p.Cfg.Name, Schema: s.sdl, Enabled: pd.enabled, Query: pd.query, Vars: pd.vars}
					if res.Crashed || len(res.Responses) == 0 {
						meta.Direct = append(meta.Direct, gen.DirectFinding{Signature: "introspection-no-response", What: fmt.Sprintf("no response to an introspection query (crashed=%v, create errors: %s)", res.Crashed, string(res.CreateErrors)), Replay: d})
						continue
					}
					var rj respJSON
					if err := json.Unmarshal(res.Responses[0], &rj); err != nil {
						return err
					}
					d.Resp = string(res.Responses[0])
					if len(d.Resp) > 600 {
						d.Resp = d.Resp[:600] + "..."
					}
					var errKeys []string
					for _, e := range rj.Errors {
						key := ""
						if len(e.Path) > 0 {
							key, _ = e.Path[0].(string)
						}
						errKeys = append(errKeys, cstr(key))
					}
					if pd.kind == "std" {
						if len(rj.Errors) > 0 {
							meta.Direct = append(meta.Direct, gen.DirectFinding{Signature: "standard-introspection-query-errors", What: "the standard introspection query was answered with errors: " + d.Resp, Replay: d})
							continue
						}
						obs, err := ObservedCoq(rj.Data)
						if err != nil {
							meta.Direct = append(meta.Direct, gen.DirectFinding{Signature: "standard-introspection-result-malformed", What: err.Error(), Replay: d})
							continue
						}
						cf.Add(fmt.Sprintf("CStd s%d %s", i, obs))
						counts["standard_query"]++
						distinct[s.sdl] = true
					} else {
						data, err := dataCoq(rj.Data, nil)
						if err != nil {
							return err
						}
						var rs []string
						for _, q := range pd.roots {
							rs = append(rs, q.coq())
						}
						// __typename at the root answers the generated executor's own root name ("Query"), whatever the served schema calls it
						cf.Add(fmt.Sprintf("CShape s%d %s %s %s %s %s", i, gen.Bool(pd.enabled), cstr("Query"), gen.List(rs), data, gen.List(errKeys)))
						if pd.enabled {
							counts["shape_enabled"]++
						} else {
							counts["shape_disabled"]++
						}
						distinct[pd.query] = true
					}
					descr = append(descr, d)
				}
			}
		}
		if err := meta.AddCaseFile(cf, descr); err != nil {
			return err
		}
		descrAll = append(descrAll, descr...)
	}

	// disabled introspection hidden among user fields of the probe's own schema; the same query against a
	// second schema value (same user fields, different everything else) must be answered identically.
	altSchema := xeng.ProbeSchema + "\n\"extra\" type Extra { secret: String @deprecated(reason: \"hidden\") }\nextend type Query { extra: Extra }\n"
	probeLoaded, err := loadSchema(xeng.ProbeSchema)
	if err != nil {
		return err
	}
	nMixed := 40
	if c.Thorough() {
		nMixed = 400
	}
	{
		var pre strings.Builder
		fmt.Fprintf(&pre, "Definition sp : sch := %s.\n", SchemaCoq(probeLoaded, r.Fork(7)))
		cf := &gen.CaseFile{Dir: c.OutDir, Prop: "C16", Kind: "mixed", Requires: []string{"Base.Prelude", "Model.Introspect", "Model.IntroQuery", "Corr.Corr_C16"},
			Type: "c16_case", Checks: []gen.Check{{Label: "corr", Fn: "c16_corr"}, {Label: "mon", Fn: "c16_mon"}, {Label: "monmodel", Fn: "c16_monmodel"}},
			Shard: 400, Preamble: pre.String()}
		var descr []any
		users := []string{"scalar", "strict", "a", "items"}
		for pi, p := range probes {
			var cases []xeng.Case
			var rootsOf [][]*qsel
			var texts []string
			for k := 0; k < nMixed; k++ {
				roots := genRoots(qr, probeLoaded, users, true)
				q, vars, used := Render(qr, roots, "Query")
				for _, u := range users {
					// a user field is rendered by name only; give composite ones their sub-selection
					q = replaceUserField(q, u)
				}
				for u, n := range used {
					shapeUse[u] += n
				}
				for _, alt := range []string{"", altSchema} {
					cases = append(cases, xeng.Case{ID: len(cases), Query: q, Variables: vars, OperationName: "Q", Oracle: xeng.NewOracle(), SchemaSDL: alt, Introspection: false})
				}
				rootsOf = append(rootsOf, roots)
				texts = append(texts, q)
			}
			results, err := xeng.RunAll(p.Built.Bin, cases)
			if err != nil {
				return err
			}
			for k := 0; k < nMixed; k++ {
				a, b := results[2*k], results[2*k+1]
				d := caseDescr{Kind: "mixed", Config: p.Cfg.Name, Schema: "(probe schema)", Query: texts[k], Vars: cases[2*k].Variables}
				if a.Crashed || b.Crashed || len(a.Responses) == 0 || len(b.Responses) == 0 {
					meta.Direct = append(meta.Direct, gen.DirectFinding{Signature: "introspection-no-response", What: "no response with introspection disabled: " + string(a.CreateErrors) + string(b.CreateErrors), Replay: d})
					continue
				}
				d.Resp = string(a.Responses[0])
				if !bytes.Equal(a.Responses[0], b.Responses[0]) {
					meta.Direct = append(meta.Direct, gen.DirectFinding{Signature: "disabled-response-depends-on-schema",
						What: "with introspection disabled the response to one query differs between two schema values: " + string(a.Responses[0]) + " vs " + string(b.Responses[0]), Replay: d})
				}
				var rj respJSON
				if err := json.Unmarshal(a.Responses[0], &rj); err != nil {
					return err
				}
				opaque := map[string]bool{}
				var rs []string
				for _, q := range rootsOf[k] {
					if _, ok := userFieldText[q.Name]; ok {
						opaque[q.Alias] = true
					}
					rs = append(rs, q.coq())
				}
				data, err := dataCoq(rj.Data, opaque)
				if err != nil {
					return err
				}
				var errKeys []string
				for _, e := range rj.Errors {
					key := ""
					if len(e.Path) > 0 {
						key, _ = e.Path[0].(string)
					}
					if e.Message != "introspection disabled" {
						key = "unexpected message: " + e.Message
					}
					errKeys = append(errKeys, cstr(key))
				}
				cf.Add(fmt.Sprintf("CShape sp false %s %s %s %s", cstr("Query"), gen.List(rs), data, gen.List(errKeys)))
				counts["mixed_disabled"]++
				distinct[texts[k]+fmt.Sprint(pi)] = true
				descr = append(descr, d)
			}
		}
		if err := meta.AddCaseFile(cf, descr); err != nil {
			return err
		}
		descrAll = append(descrAll, descr...)
	}
	meta.Distribution["cases"] = counts
	meta.Distribution["query_obfuscation_devices_used"] = shapeUse
	meta.Distribution["probe_configurations"] = len(probes)
	meta.Programs = len(schemas)
	meta.Evaluations = counts["standard_query"] + counts["shape_enabled"] + counts["shape_disabled"] + 2*counts["mixed_disabled"]
	meta.DistinctNontrivial = len(distinct)
	meta.Rule = "schemas: 6 pinned (one per repaired defect, interface hierarchy, every default kind, union order) + the probe schema + random schemas from a grammar (descriptions incl. quotes/backslashes/block strings, @deprecated with and without reason on fields, arguments, input fields, enum values and directive arguments, defaults of every kind incl. null/lists/objects, interface-implements-interface, unions, repeatable directives, @specifiedBy, @oneOf, custom root type names, schema description), each loaded independently by gqlparser and served through Config.Schema of probe servers generated at check time (both layouts). Per schema: the full standard introspection query (every option of graphql-js on) + random query shapes over the introspection meta-schema (depth <= 5, includeDeprecated on/off, __type(name:) incl. unknown names, __typename) rendered with aliases, inline and named fragments, split-and-merged fields, @include and variables, half with the Introspection extension installed and half without. Mixed: introspection roots hidden among user fields of the probe schema, gate closed, each query also run against a second schema value (responses must be byte-identical). distinct_nontrivial = distinct schemas + distinct query texts."
	if len(descrAll) > 2 {
		meta.Samples = append(meta.Samples, descrAll[1], descrAll[len(descrAll)-1])
	}
	return meta.Write(c.OutDir)
}

// replaceUserField rewrites a bare user field (rendered by name) into its full text.
func replaceUserField(q, name string) string {
	full := userFieldText[name]
	if full == name {
		return q
	}
	// occurrences are delimited by spaces or braces; aliases end with ": name"
	var out []string
	for _, tok := range strings.Split(q, " ") {
		if tok == name {
			out = append(out, full)
		} else {
			out = append(out, tok)
		}
	}
	return strings.Join(out, " ")
}
