package c16

import (
	"fmt"
	"strings"

	"verifharness/gen"
)

// ---- random schemas from a grammar that places every element introspection has to report ----------------

var descPool = []string{
	"", "", "", "plain description", "with \\\"quotes\\\" inside", "back\\\\slash", "trailing space ", "semi;colon, comma",
	"0", "null", "a 'single' quoted `word`",
}

type sgen struct {
	r        *gen.Rand
	scalars  []string
	enums    []string
	enumVals map[string][]string
	inputs   []string
	ifaces   []string
	objects  []string
	unions   []string
	b        strings.Builder
	features map[string]int
}

func (g *sgen) desc(indent string) string {
	d := gen.Pick(g.r, descPool)
	if d == "" {
		return ""
	}
	g.features["description"]++
	if g.r.Chance(1, 4) && !strings.Contains(d, "\\") {
		g.features["block_description"]++
		return indent + "\"\"\"\n" + indent + d + "\n" + indent + "second line\n" + indent + "\"\"\"\n"
	}
	return indent + "\"" + d + "\"\n"
}

func (g *sgen) depr(optional bool) string {
	if !optional || !g.r.Chance(1, 3) {
		return ""
	}
	if g.r.Bool() {
		g.features["deprecated_no_reason"]++
		return " @deprecated"
	}
	g.features["deprecated_reason"]++
	return fmt.Sprintf(" @deprecated(reason: %q)", gen.Pick(g.r, []string{"use other", "", "No longer supported", "gone in v2"}))
}

func wrapType(r *gen.Rand, base string, depth int) (string, bool) {
	t := base
	nullable := true
	if r.Chance(1, 3) {
		t += "!"
		nullable = false
	}
	for i := 0; i < depth; i++ {
		t = "[" + t + "]"
		nullable = true
		if r.Chance(1, 3) {
			t += "!"
			nullable = false
		}
	}
	return t, nullable
}

func (g *sgen) outType() (string, bool) {
	pool := append([]string{"Int", "String", "Boolean", "ID", "Float"}, g.scalars...)
	pool = append(pool, g.enums...)
	pool = append(pool, g.objects...)
	pool = append(pool, g.ifaces...)
	pool = append(pool, g.unions...)
	depth := []int{0, 0, 0, 1, 1, 2, 3}[g.r.Intn(7)]
	return wrapType(g.r, gen.Pick(g.r, pool), depth)
}

// inType returns an input type, whether it is nullable and a literal of that type (for defaults).
func (g *sgen) inType(allowInputs bool) (string, bool, string) {
	pool := append([]string{"Int", "String", "Boolean", "ID", "Float"}, g.enums...)
	if allowInputs {
		pool = append(pool, g.inputs...)
	}
	base := gen.Pick(g.r, pool)
	depth := []int{0, 0, 0, 1, 1, 2}[g.r.Intn(6)]
	t, nullable := wrapType(g.r, base, depth)
	lit := g.literal(base)
	for i := 0; i < depth; i++ {
		switch g.r.Intn(3) {
		case 0:
			lit = "[" + lit + "]"
		case 1:
			lit = "[" + lit + ", " + lit + "]"
		default:
			lit = "[]"
		}
	}
	return t, nullable, lit
}

func (g *sgen) literal(base string) string {
	switch base {
	case "Int":
		return gen.Pick(g.r, []string{"0", "3", "-7", "2147483647"})
	case "Float":
		return gen.Pick(g.r, []string{"1.5", "-0.25", "2", "1e3"})
	case "String":
		return gen.Pick(g.r, []string{`"x y"`, `""`, `"q\"uote"`, `"null"`})
	case "Boolean":
		return gen.Pick(g.r, []string{"true", "false"})
	case "ID":
		return gen.Pick(g.r, []string{`"id1"`, "7"})
	}
	if vs, ok := g.enumVals[base]; ok {
		return gen.Pick(g.r, vs)
	}
	// input object: only optional fields exist in generated inputs, so {} and partial objects are valid
	return "{}"
}

func (g *sgen) args(indent string) string {
	n := []int{0, 0, 1, 2, 3}[g.r.Intn(5)]
	if n == 0 {
		return ""
	}
	var parts []string
	for i := 0; i < n; i++ {
		t, nullable, lit := g.inType(true)
		def := ""
		hasDef := false
		if g.r.Chance(2, 5) {
			hasDef = true
			g.features["arg_default"]++
			if nullable && g.r.Chance(1, 5) {
				lit = "null"
			}
			def = " = " + lit
		}
		d := g.depr(nullable || hasDef)
		if d != "" {
			g.features["deprecated_argument"]++
		}
		parts = append(parts, g.desc(indent+"  ")+fmt.Sprintf("%s  arg%d: %s%s%s", indent, i, t, def, d))
	}
	return "(\n" + strings.Join(parts, "\n") + "\n" + indent + ")"
}

type fieldSpec struct{ name, args, typ string }

func (g *sgen) fieldLines(fs []fieldSpec) string {
	var sb strings.Builder
	for _, f := range fs {
		sb.WriteString(g.desc("  "))
		d := g.depr(true)
		if d != "" {
			g.features["deprecated_field"]++
		}
		fmt.Fprintf(&sb, "  %s%s: %s%s\n", f.name, f.args, f.typ, d)
	}
	return sb.String()
}

func (g *sgen) newFields(prefix string, n int) []fieldSpec {
	var fs []fieldSpec
	for i := 0; i < n; i++ {
		t, _ := g.outType()
		fs = append(fs, fieldSpec{fmt.Sprintf("%s%d", prefix, i), g.args("  "), t})
	}
	return fs
}

// Generate returns one SDL document.
func Generate(r *gen.Rand) (string, map[string]int) {
	g := &sgen{r: r, enumVals: map[string][]string{}, features: map[string]int{}}
	// names first, so that types can refer to each other
	for i := 0; i < r.Intn(3); i++ {
		g.scalars = append(g.scalars, fmt.Sprintf("Sc%d", i))
	}
	for i := 0; i < 1+r.Intn(2); i++ {
		n := fmt.Sprintf("En%d", i)
		g.enums = append(g.enums, n)
		for j := 0; j < 1+r.Intn(4); j++ {
			g.enumVals[n] = append(g.enumVals[n], fmt.Sprintf("V%d_%d", i, j))
		}
	}
	for i := 0; i < 1+r.Intn(2); i++ {
		g.inputs = append(g.inputs, fmt.Sprintf("In%d", i))
	}
	nIf := r.Intn(4)
	for i := 0; i < nIf; i++ {
		g.ifaces = append(g.ifaces, fmt.Sprintf("If%d", i))
	}
	nObj := 1 + r.Intn(4)
	for i := 0; i < nObj; i++ {
		g.objects = append(g.objects, fmt.Sprintf("Ob%d", i))
	}
	if r.Chance(2, 3) {
		g.unions = append(g.unions, "Un0")
	}
	qname, mname, sname := "Query", "", ""
	custom := r.Chance(1, 3)
	if custom {
		qname = "RootQ"
		g.features["custom_root_names"]++
	}
	if r.Bool() {
		mname = "Mutation"
		if custom {
			mname = "RootM"
		}
	}
	if r.Chance(1, 3) {
		sname = "Subscription"
		if custom {
			sname = "RootS"
		}
	}
	b := &g.b
	if custom || r.Chance(1, 4) {
		if r.Bool() {
			b.WriteString("\"the schema itself\"\n")
			g.features["schema_description"]++
		}
		b.WriteString("schema {\n  query: " + qname + "\n")
		if mname != "" {
			b.WriteString("  mutation: " + mname + "\n")
		}
		if sname != "" {
			b.WriteString("  subscription: " + sname + "\n")
		}
		b.WriteString("}\n\n")
	}
	// directives
	locsPool := []string{"FIELD_DEFINITION", "OBJECT", "ARGUMENT_DEFINITION", "ENUM_VALUE", "INPUT_FIELD_DEFINITION", "QUERY", "FIELD", "INTERFACE", "UNION", "SCALAR", "ENUM", "INPUT_OBJECT", "SCHEMA", "FRAGMENT_SPREAD", "VARIABLE_DEFINITION"}
	for i := 0; i < r.Intn(3); i++ {
		b.WriteString(g.desc(""))
		fmt.Fprintf(b, "directive @dir%d", i)
		na := r.Intn(3)
		if na > 0 {
			var parts []string
			for j := 0; j < na; j++ {
				t, nullable, lit := g.inType(false)
				def := ""
				if r.Bool() {
					def = " = " + lit
					g.features["directive_arg_default"]++
				}
				d := g.depr(nullable || def != "")
				if d != "" {
					g.features["deprecated_directive_argument"]++
				}
				parts = append(parts, fmt.Sprintf("%s  p%d: %s%s%s", g.desc("  "), j, t, def, d))
			}
			b.WriteString("(\n" + strings.Join(parts, "\n") + "\n)")
		}
		if r.Chance(1, 3) {
			b.WriteString(" repeatable")
			g.features["repeatable_directive"]++
		}
		nl := 1 + r.Intn(3)
		var locs []string
		seen := map[string]bool{}
		for len(locs) < nl {
			l := gen.Pick(r, locsPool)
			if !seen[l] {
				seen[l] = true
				locs = append(locs, l)
			}
		}
		b.WriteString(" on " + strings.Join(locs, " | ") + "\n\n")
	}
	for _, s := range g.scalars {
		b.WriteString(g.desc(""))
		b.WriteString("scalar " + s)
		if r.Bool() {
			fmt.Fprintf(b, " @specifiedBy(url: %q)", "https://example.org/"+s)
			g.features["specified_by"]++
		}
		b.WriteString("\n\n")
	}
	for _, e := range g.enums {
		b.WriteString(g.desc(""))
		b.WriteString("enum " + e + " {\n")
		for _, v := range g.enumVals[e] {
			b.WriteString(g.desc("  "))
			d := g.depr(true)
			if d != "" {
				g.features["deprecated_enum_value"]++
			}
			b.WriteString("  " + v + d + "\n")
		}
		b.WriteString("}\n\n")
	}
	for i, in := range g.inputs {
		b.WriteString(g.desc(""))
		oneOf := r.Chance(1, 4)
		b.WriteString("input " + in)
		if oneOf {
			b.WriteString(" @oneOf")
			g.features["one_of"]++
		}
		b.WriteString(" {\n")
		for j := 0; j < 1+r.Intn(4); j++ {
			// inputs only refer to earlier inputs (no cycles through required fields; all fields optional)
			sub := g.inputs[:i]
			pool := append([]string{"Int", "String", "Boolean", "ID", "Float"}, g.enums...)
			pool = append(pool, sub...)
			base := gen.Pick(r, pool)
			depth := []int{0, 0, 1, 2}[r.Intn(4)]
			t := base
			for k := 0; k < depth; k++ {
				if r.Chance(1, 3) {
					t += "!"
				}
				t = "[" + t + "]"
			}
			def := ""
			if !oneOf && r.Chance(2, 5) {
				lit := g.literal(base)
				for k := 0; k < depth; k++ {
					lit = "[" + lit + "]"
				}
				if r.Chance(1, 6) {
					lit = "null"
				}
				def = " = " + lit
				g.features["input_field_default"]++
			}
			d := g.depr(true)
			if d != "" {
				g.features["deprecated_input_field"]++
			}
			b.WriteString(g.desc("  "))
			fmt.Fprintf(b, "  in%d: %s%s%s\n", j, t, def, d)
		}
		b.WriteString("}\n\n")
	}
	// interfaces: If(i) may implement a subset of the earlier ones (transitively closed by construction)
	ifFields := map[string][]fieldSpec{}
	ifImpl := map[string][]string{}
	for i, name := range g.ifaces {
		var impl []string
		var fs []fieldSpec
		if i > 0 && r.Chance(2, 3) {
			parent := g.ifaces[r.Intn(i)]
			impl = append(append([]string{}, ifImpl[parent]...), parent)
			for _, p := range impl {
				for _, f := range ifFields[p] {
					dup := false
					for _, x := range fs {
						if x.name == f.name {
							dup = true
						}
					}
					if !dup {
						fs = append(fs, f)
					}
				}
			}
			g.features["interface_implements_interface"]++
		}
		fs = append(fs, g.newFields(fmt.Sprintf("i%df", i), 1+r.Intn(2))...)
		ifFields[name] = fs
		ifImpl[name] = impl
		b.WriteString(g.desc(""))
		b.WriteString("interface " + name)
		if len(impl) > 0 {
			b.WriteString(" implements " + strings.Join(impl, " & "))
		}
		b.WriteString(" {\n" + g.fieldLines(fs) + "}\n\n")
	}
	for i, name := range g.objects {
		var impl []string
		var fs []fieldSpec
		if len(g.ifaces) > 0 && r.Chance(2, 3) {
			top := gen.Pick(r, g.ifaces)
			impl = append(append([]string{}, ifImpl[top]...), top)
			fs = append(fs, ifFields[top]...)
			if r.Chance(1, 3) {
				other := gen.Pick(r, g.ifaces)
				for _, p := range append(append([]string{}, ifImpl[other]...), other) {
					has := false
					for _, q := range impl {
						if q == p {
							has = true
						}
					}
					if !has {
						impl = append(impl, p)
					}
				}
				for _, f := range ifFields[other] {
					dup := false
					for _, x := range fs {
						if x.name == f.name {
							dup = true
						}
					}
					if !dup {
						fs = append(fs, f)
					}
				}
			}
		}
		fs = append(fs, g.newFields(fmt.Sprintf("o%df", i), 1+r.Intn(3))...)
		b.WriteString(g.desc(""))
		b.WriteString("type " + name)
		if len(impl) > 0 {
			b.WriteString(" implements " + strings.Join(impl, " & "))
		}
		b.WriteString(" {\n" + g.fieldLines(fs) + "}\n\n")
	}
	for _, u := range g.unions {
		b.WriteString(g.desc(""))
		var ms []string
		for _, o := range g.objects {
			if r.Chance(2, 3) {
				ms = append(ms, o)
			}
		}
		if len(ms) == 0 {
			ms = []string{g.objects[0]}
		}
		// declaration order is not name order
		if len(ms) > 1 && r.Bool() {
			ms[0], ms[len(ms)-1] = ms[len(ms)-1], ms[0]
		}
		b.WriteString("union " + u + " = " + strings.Join(ms, " | ") + "\n\n")
	}
	for _, root := range []string{qname, mname, sname} {
		if root == "" {
			continue
		}
		b.WriteString(g.desc(""))
		b.WriteString("type " + root + " {\n" + g.fieldLines(g.newFields("r"+strings.ToLower(root[:1]), 1+r.Intn(3))) + "}\n\n")
	}
	return b.String(), g.features
}
