package c10

import (
	"bytes"
	"context"
	"encoding/json"
	"fmt"
	"io"
	"mime/multipart"
	"net/http"
	"net/http/httptest"
	"os"
	"path/filepath"
	"sort"
	"strconv"
	"strings"

	"github.com/vektah/gqlparser/v2"
	"github.com/vektah/gqlparser/v2/ast"

	"github.com/99designs/gqlgen/graphql"
	"github.com/99designs/gqlgen/graphql/handler"
	"github.com/99designs/gqlgen/graphql/handler/transport"

	"verifharness/gen"
)

var upSchema = gqlparser.MustLoadSchema(&ast.Source{Name: "u.graphqls", Input: `scalar Upload
type Query { a: String }
type Mutation { one(file: Upload!): String many(files: [Upload!]!): String }`})

// multipart request bodies: complete ones and ones cut at every structural point
func uploadBody(boundary, operations, mapJSON string, files []string) []byte {
	var buf bytes.Buffer
	mw := multipart.NewWriter(&buf)
	_ = mw.SetBoundary(boundary)
	_ = mw.WriteField("operations", operations)
	_ = mw.WriteField("map", mapJSON)
	for i, content := range files {
		w, _ := mw.CreateFormFile(fmt.Sprint(i), fmt.Sprintf("f%d.txt", i))
		_, _ = w.Write([]byte(content))
	}
	mw.Close()
	return buf.Bytes()
}

// runUploads sends well-formed and malformed multipart uploads with the spill-to-disk branch on and off and
// requires: a well-formed error without execution, or success with every file's exact bytes, name and type at every
// mapped path through independently seekable readers; never the recover hook; no temporary file left behind; the server still
// answers afterwards.
func runUploads(c *gen.Ctx, r *gen.Rand, meta *gen.Meta) (int, error) {
	tmp, err := os.MkdirTemp(os.Getenv("VERIF_WORK"), "c10tmp")
	if err != nil {
		return 0, err
	}
	defer os.RemoveAll(tmp)
	old := os.Getenv("TMPDIR")
	os.Setenv("TMPDIR", tmp)
	defer os.Setenv("TMPDIR", old)
	recovers := 0
	execs := 0
	type got struct {
		name, ctype string
		size        int64
		content     string
		again       string
	}
	var delivered []got
	es := &graphql.ExecutableSchemaMock{
		SchemaFunc: func() *ast.Schema { return upSchema },
		ComplexityFunc: func(ctx context.Context, typeName, fieldName string, childComplexity int, args map[string]any) (int, bool) {
			return 0, false
		},
		ExecFunc: func(ctx context.Context) graphql.ResponseHandler {
			execs++
			delivered = nil
			var ups []graphql.Upload
			var walk func(v any)
			walk = func(v any) {
				switch x := v.(type) {
				case graphql.Upload:
					ups = append(ups, x)
				case map[string]any:
					keys := make([]string, 0, len(x))
					for k := range x {
						keys = append(keys, k)
					}
					sort.Strings(keys)
					for _, k := range keys {
						walk(x[k])
					}
				case []any:
					for _, e := range x {
						walk(e)
					}
				}
			}
			walk(graphql.GetOperationContext(ctx).Variables)
			// interleaved reads: a first half of every reader, then the rest of every reader; then seek the first
			// one back and read it again while the others stay at their end
			halves := make([][]byte, len(ups))
			for i, u := range ups {
				b := make([]byte, u.Size/2)
				n, _ := io.ReadFull(u.File, b)
				halves[i] = b[:n]
			}
			for i, u := range ups {
				rest, _ := io.ReadAll(u.File)
				delivered = append(delivered, got{u.Filename, u.ContentType, u.Size, string(halves[i]) + string(rest), ""})
			}
			if len(ups) > 0 {
				_, _ = ups[0].File.Seek(0, io.SeekStart)
				again, _ := io.ReadAll(ups[0].File)
				delivered[0].again = string(again)
				for i := 1; i < len(ups); i++ {
					if more, _ := io.ReadAll(ups[i].File); len(more) > 0 {
						delivered[i].again = "reader moved when another reader of the same file was rewound"
					}
				}
			}
			return graphql.OneShot(&graphql.Response{Data: []byte(`{"one":"ok"}`)})
		},
	}
	mk := func(maxMem, maxUp int64) *handler.Server {
		srv := handler.New(es)
		srv.AddTransport(transport.MultipartForm{MaxMemory: maxMem, MaxUploadSize: maxUp})
		srv.AddTransport(transport.POST{})
		srv.SetRecoverFunc(func(ctx context.Context, err any) error { recovers++; return fmt.Errorf("internal system error") })
		return srv
	}
	big := strings.Repeat("0123456789abcdef", 600) // ~9.6 KB
	one := `{"query":"mutation($f: Upload!) { one(file: $f) }","variables":{"f":null}}`
	many := `{"query":"mutation($fs: [Upload!]!) { many(files: $fs) }","variables":{"fs":[null,null]}}`
	type req struct {
		name  string
		body  []byte
		want  string   // ok | client
		files []string // for well-formed ones: the content each mapped variable path must receive, in variable order
	}
	const bd = "XBOUNDARYX"
	var reqs []req
	full1 := uploadBody(bd, one, `{"0":["variables.f"]}`, []string{big})
	full2 := uploadBody(bd, many, `{"0":["variables.fs.0"],"1":["variables.fs.1"]}`, []string{big, "small"})
	reqs = append(reqs, req{"one file", full1, "ok", []string{big}}, req{"two files", full2, "ok", []string{big, "small"}},
		req{"one file mapped twice", uploadBody(bd, many, `{"0":["variables.fs.0","variables.fs.1"]}`, []string{big}), "ok", []string{big, big}},
		req{"two files in reverse part order", uploadBody(bd, many, `{"0":["variables.fs.1"],"1":["variables.fs.0"]}`, []string{"first part", big}), "ok", []string{big, "first part"}},
		req{"empty file", uploadBody(bd, one, `{"0":["variables.f"]}`, []string{""}), "ok", []string{""}})
	// cut the well-formed bodies at structural points and at random points inside the file content
	cuts := func(b []byte) []int {
		s := string(b)
		var out []int
		for _, marker := range []string{`name="operations"`, `name="map"`, `name="0"`, "f0.txt", "Content-Type: application/octet-stream\r\n\r\n", "0123456789abcdef0123"} {
			if i := strings.Index(s, marker); i >= 0 {
				out = append(out, i+len(marker))
			}
		}
		fileStart := strings.Index(s, "Content-Type: application/octet-stream\r\n\r\n")
		for k := 0; k < 4 && fileStart > 0; k++ {
			out = append(out, fileStart+50+r.Intn(len(big)-100))
		}
		out = append(out, len(b)-5, len(b)-20)
		return out
	}
	for _, cpt := range cuts(full1) {
		reqs = append(reqs, req{fmt.Sprintf("one file, body cut at byte %d of %d", cpt, len(full1)), full1[:cpt], "client", nil})
	}
	for _, cpt := range cuts(full2) {
		reqs = append(reqs, req{fmt.Sprintf("two files, body cut at byte %d of %d", cpt, len(full2)), full2[:cpt], "client", nil})
	}
	reqs = append(reqs,
		req{"map names a missing variable", uploadBody(bd, one, `{"0":["variables.nope.x"]}`, []string{big}), "client", nil},
		req{"map is not JSON", uploadBody(bd, one, `{"0":`, []string{big}), "client", nil},
		req{"operations is not JSON", uploadBody(bd, `{"query":`, `{"0":["variables.f"]}`, []string{big}), "client", nil},
		req{"file part without a map entry", uploadBody(bd, one, `{}`, []string{big}), "client", nil},
		req{"map entry without its file part", uploadBody(bd, one, `{"0":["variables.f"],"1":["variables.f"]}`, []string{big}), "client", nil},
		req{"no variables at all", uploadBody(bd, `{"query":"mutation($f: Upload!) { one(file: $f) }"}`, `{"0":["variables.f"]}`, []string{big}), "client", nil},
	)
	fcf := &gen.CaseFile{Dir: c.OutDir, Prop: "C10", Kind: "form", Requires: []string{"Base.Prelude", "Model.Upload", "Model.UploadForm", "Corr.Corr_C10"}, Type: "form_case",
		Checks: []gen.Check{{Label: "corr", Fn: "form_corr"}, {Label: "mon", Fn: "form_mon"}, {Label: "monmodel", Fn: "form_monmodel"}}, Shard: 400}
	var fdescr []any
	formStats := map[string]int{}
	n := 0
	for _, mode := range []struct {
		name          string
		maxMem, maxUp int64
	}{{"in memory", 1 << 20, 1 << 22}, {"spilled to disk", 64, 1 << 22}, {"over the upload limit", 64, 2000}} {
		srv := mk(mode.maxMem, mode.maxUp)
		for _, rq0 := range reqs {
			for _, chunked := range []bool{false, true} {
				rq := rq0
				n++
				before := recovers
				execsBefore := execs
				delivered = nil
				var bodyReader io.Reader = bytes.NewReader(rq.body)
				if chunked {
					// no Content-Length (a chunked request): the size is only known while reading
					bodyReader = struct{ io.Reader }{bytes.NewReader(rq.body)}
					rq.name += " (sent without Content-Length)"
				}
				hr := httptest.NewRequest(http.MethodPost, "/query", bodyReader)
				hr.Header.Set("Content-Type", "multipart/form-data; boundary="+bd)
				w := httptest.NewRecorder()
				srv.ServeHTTP(w, hr)
				left, _ := filepath.Glob(filepath.Join(tmp, "*"))
				var problems []string
				if recovers != before {
					problems = append(problems, "the recover hook ran (gqlgen's own code panicked)")
				}
				if len(left) > 0 {
					var names []string
					for _, l := range left {
						names = append(names, filepath.Base(l))
						_ = os.Remove(l)
					}
					problems = append(problems, fmt.Sprintf("temporary files left behind: %v", names))
				}
				want := rq.want
				if int64(len(rq.body)) > mode.maxUp {
					want = "client"
				}
				var resp struct {
					Data   json.RawMessage   `json:"data"`
					Errors []json.RawMessage `json:"errors"`
				}
				jerr := json.Unmarshal(w.Body.Bytes(), &resp)
				switch {
				case jerr != nil:
					problems = append(problems, fmt.Sprintf("the answer (status %d) is not a JSON response: %q", w.Code, w.Body.String()))
				case want == "ok":
					if w.Code != 200 || len(resp.Errors) > 0 || execs != execsBefore+1 {
						problems = append(problems, fmt.Sprintf("a well-formed upload was answered %d: %s", w.Code, strings.TrimSpace(w.Body.String())))
					} else if len(delivered) != len(rq.files) {
						problems = append(problems, fmt.Sprintf("%d uploads reached the variables, %d were mapped", len(delivered), len(rq.files)))
					} else {
						for i, d := range delivered {
							if d.content != rq.files[i] || d.size != int64(len(rq.files[i])) || d.ctype != "application/octet-stream" || !strings.HasPrefix(d.name, "f") || !strings.HasSuffix(d.name, ".txt") {
								problems = append(problems, fmt.Sprintf("mapped path %d received name %q type %q size %d and %d bytes (equal to the part: %v); the part had %d bytes", i, d.name, d.ctype, d.size, len(d.content), d.content == rq.files[i], len(rq.files[i])))
							}
						}
						if len(delivered) > 0 && delivered[0].again != rq.files[0] {
							problems = append(problems, "after Seek(0) the first reader did not deliver the file again")
						}
						for i := 1; i < len(delivered); i++ {
							if delivered[i].again != "" {
								problems = append(problems, fmt.Sprintf("mapped path %d: %s", i, delivered[i].again))
							}
						}
					}
				case want == "client":
					if w.Code >= 500 || len(resp.Errors) == 0 || execs != execsBefore {
						problems = append(problems, fmt.Sprintf("a malformed or oversized upload was answered %d (executed: %v): %s", w.Code, execs != execsBefore, strings.TrimSpace(w.Body.String())))
					}
				}
				// the same request as a case for the model of the handler
				form, table := classifyForm(rq.body, bd, mode.maxMem, mode.maxUp, chunked)
				var fids []string
				for _, d := range delivered {
					fid := 0
					for i, t := range table {
						if t.content == d.content && t.name == d.name {
							fid = i + 1
						}
					}
					fids = append(fids, fmt.Sprintf("%d%%nat", fid))
				}
				acc := jerr == nil && w.Code == 200 && len(resp.Errors) == 0 && execs == execsBefore+1
				fcf.Add(fmt.Sprintf("{| fc_form := %s; fc_accepted := %s; fc_leftover := %d; fc_delivered := %s; fc_recovered := %s |}",
					form, gen.Bool(acc), len(left), gen.List(fids), gen.Bool(recovers != before)))
				if acc {
					formStats[mode.name+": accepted"]++
				} else {
					formStats[mode.name+": refused"]++
				}
				fdescr = append(fdescr, map[string]any{"mode": mode.name, "request": rq.name, "without_content_length": chunked, "status": w.Code, "accepted": acc, "left_over_files": len(left), "form": form})
				if len(problems) > 0 {
					meta.Direct = append(meta.Direct, gen.DirectFinding{Signature: "multipart-upload-" + strings.ReplaceAll(mode.name, " ", "-"),
						What:   rq.name + " (" + mode.name + "): " + strings.Join(problems, "; "),
						Replay: map[string]any{"mode": mode.name, "max_memory": mode.maxMem, "max_upload_size": mode.maxUp, "request": rq.name, "body": string(rq.body[:min(len(rq.body), 700)])}})
				}
			}
		}
		// the server keeps serving
		hr := httptest.NewRequest(http.MethodPost, "/query", strings.NewReader(`{"query":"{ a }"}`))
		hr.Header.Set("Content-Type", "application/json")
		w := httptest.NewRecorder()
		srv.ServeHTTP(w, hr)
		if w.Code != 200 {
			meta.Direct = append(meta.Direct, gen.DirectFinding{Signature: "server-stops-serving", What: fmt.Sprintf("after the malformed uploads a plain query was answered %d", w.Code), Replay: mode.name})
		}
	}
	if err := meta.AddCaseFile(fcf, fdescr); err != nil {
		return 0, err
	}
	if meta.Distribution != nil {
		meta.Distribution["upload_forms_against_the_handler_model"] = formStats
	}
	meta.Notes = append(meta.Notes, fmt.Sprintf("%d multipart uploads (5 well-formed shapes incl. one file mapped twice, reverse part order and an empty file, each checked for exact bytes/name/type/size and independent seekable readers; bodies cut at every structural point and inside the file content, bad operations/map JSON, unmapped and missing parts, no variables) x {in memory, spilled to disk, over MaxUploadSize}: client error or success, recover hook never, private TMPDIR empty after every request", n))
	return n, nil
}

type filePart struct{ name, ctype, content string }

// classifyForm reads the request body the way mime/multipart presents it and renders it as the model's form:
// size gates, operations variables, map, and the file parts as complete / cut off / unreadable.
func classifyForm(body []byte, boundary string, maxMem, maxUp int64, chunked bool) (string, []filePart) {
	over := int64(len(body)) > maxUp
	spill := !(int64(len(body)) < maxMem)
	var src io.Reader = bytes.NewReader(body)
	if chunked {
		// Content-Length is -1: no up-front size verdict, everything is read in memory, and the size limit is what
		// http.MaxBytesReader enforces while the parts are read
		over, spill = false, false
		src = http.MaxBytesReader(nil, io.NopCloser(bytes.NewReader(body)), maxUp)
	}
	ops, mp := "None", "None"
	var parts []string
	var table []filePart
	mr := multipart.NewReader(src, boundary)
	func() {
		p, err := mr.NextPart()
		if err != nil || p.FormName() != "operations" {
			return
		}
		var params struct {
			Variables map[string]any `json:"variables"`
		}
		dec := json.NewDecoder(p)
		dec.UseNumber()
		if err := dec.Decode(&params); err != nil {
			return
		}
		ops = "(Some " + varsCoq(params.Variables) + ")"
		p, err = mr.NextPart()
		if err != nil || p.FormName() != "map" {
			return
		}
		um := map[string][]string{}
		if err := json.NewDecoder(p).Decode(&um); err != nil {
			return
		}
		keys := make([]string, 0, len(um))
		for k := range um {
			keys = append(keys, k)
		}
		sort.Strings(keys)
		var entries []string
		for _, k := range keys {
			var ps []string
			for _, path := range um[k] {
				hasPrefix := strings.HasPrefix(path, "variables.")
				var segs []string
				if hasPrefix {
					for _, sg := range strings.Split(path, ".")[1:] {
						if n, err := strconv.Atoi(sg); err == nil {
							segs = append(segs, fmt.Sprintf("SegIdx %s %s", gen.Str(sg), gen.Z(int64(n))))
						} else {
							segs = append(segs, "SegKey "+gen.Str(sg))
						}
					}
				}
				ps = append(ps, fmt.Sprintf("(%s, %s)", gen.Bool(hasPrefix), gen.List(segs)))
			}
			entries = append(entries, fmt.Sprintf("(%s, %s)", gen.Str(k), gen.List(ps)))
		}
		mp = "(Some " + gen.List(entries) + ")"
		for {
			p, err := mr.NextPart()
			if err == io.EOF {
				return
			}
			if err != nil {
				parts = append(parts, "PBad")
				return
			}
			content, err := io.ReadAll(p)
			if err != nil {
				parts = append(parts, "PCut "+gen.Str(p.FormName()))
				return
			}
			table = append(table, filePart{p.FileName(), p.Header.Get("Content-Type"), string(content)})
			parts = append(parts, fmt.Sprintf("PFile %s %d", gen.Str(p.FormName()), len(table)))
		}
	}()
	return fmt.Sprintf("{| fm_over := %s; fm_spill := %s; fm_ops := %s; fm_map := %s; fm_parts := %s |}", gen.Bool(over), gen.Bool(spill), ops, mp, gen.List(parts)), table
}
