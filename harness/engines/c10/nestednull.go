package c10

import (
	"context"
	"fmt"
	"net/http/httptest"
	"strings"

	"github.com/vektah/gqlparser/v2"
	"github.com/vektah/gqlparser/v2/ast"

	"github.com/99designs/gqlgen/graphql"
	"github.com/99designs/gqlgen/graphql/handler"
	"github.com/99designs/gqlgen/graphql/handler/transport"

	"verifharness/gen"
)

// nestedListVariables: variable values for nested list types, valid and invalid, incl. null inner lists - none may
// end in the recover hook (the resolvers of the mock never panic).
func nestedListVariables(meta *gen.Meta) int {
	schema := gqlparser.MustLoadSchema(&ast.Source{Input: `type Query { f(v: [[Int]], w: [[Int!]!], x: [[[String]]]): Int }`})
	es := &graphql.ExecutableSchemaMock{
		SchemaFunc:     func() *ast.Schema { return schema },
		ComplexityFunc: func(ctx context.Context, t, f string, c int, a map[string]any) (int, bool) { return 0, false },
		ExecFunc: func(ctx context.Context) graphql.ResponseHandler {
			return graphql.OneShot(&graphql.Response{Data: []byte(`{"f":1}`)})
		},
	}
	srv := handler.New(es)
	srv.AddTransport(transport.POST{})
	recovered := 0
	srv.SetRecoverFunc(func(ctx context.Context, err any) error { recovered++; return fmt.Errorf("internal system error") })
	n := 0
	for _, q := range []struct{ decl, arg string }{{"$v: [[Int]]", "v: $v"}, {"$v: [[Int!]!]", "w: $v"}, {"$v: [[[String]]]", "x: $v"}} {
		for _, vars := range []string{`null`, `[]`, `[[]]`, `[[1]]`, `[[1],null]`, `[null]`, `[null,[2]]`, `[[null]]`, `[[1,null]]`, `1`, `[1]`, `[[["a"],null],null]`, `[[null]]`, `"s"`, `{"a":1}`} {
			n++
			before := recovered
			body := fmt.Sprintf(`{"query":"query(%s){ f(%s) }","variables":{"v":%s}}`, q.decl, q.arg, vars)
			var escaped any
			w := httptest.NewRecorder()
			func() {
				defer func() { escaped = recover() }()
				req := httptest.NewRequest("POST", "/", strings.NewReader(body))
				req.Header.Set("Content-Type", "application/json")
				srv.ServeHTTP(w, req)
			}()
			if escaped != nil || recovered != before {
				sig := "variable-of-nested-list-type-panics"
				if strings.Contains(vars, "null") && strings.Count(q.decl, "[") >= 2 {
					sig = "null-inner-list-in-nested-list-variable-panics-in-gqlparser"
				}
				meta.Direct = append(meta.Direct, gen.DirectFinding{Signature: sig,
					What:   fmt.Sprintf("variable %s = %s: the request ended in the recover hook (%d call) / an escaped panic (%v) although no user code ran; answered %d %s", q.decl, vars, recovered-before, escaped, w.Code, strings.TrimSpace(w.Body.String())),
					Replay: map[string]any{"body": body}})
			}
		}
	}
	return n
}
