package c10

import "verifharness/gen"

// runTransports is filled in together with the HTTP model (Model/Http.v).
func runTransports(c *gen.Ctx, r *gen.Rand, meta *gen.Meta) (int, error) { return 0, nil }
