package c10

import (
	"verifharness/engines/pipe"
	"verifharness/gen"
)

// runTransports sends malformed and well-formed requests through every single-response transport of a
// real handler.Server (shared with C03/C07/C09: engines/pipe); the C10 monitor requires that the recover
// hook is never reached and that malformed input is answered with a well-formed client error.
func runTransports(c *gen.Ctx, r *gen.Rand, meta *gen.Meta) (int, error) {
	return pipe.Generate(c, "C10", r, meta)
}
