// Package c10 feeds malformed client input to gqlgen: AddUpload paths over variable shapes (this file)
// and malformed requests on every transport (transports.go).
package c10

import (
	"fmt"
	"sort"
	"strconv"
	"strings"

	"github.com/99designs/gqlgen/graphql"

	"verifharness/gen"
)

// jvCoq renders a decoded-JSON value as the model's jv term.
func jvCoq(v any) string {
	switch x := v.(type) {
	case nil:
		return "JVNil"
	case string:
		n, _ := strconv.Atoi(strings.TrimPrefix(x, "leaf"))
		return fmt.Sprintf("(JVLeaf %d)", n)
	case graphql.Upload:
		n, _ := strconv.Atoi(strings.TrimPrefix(x.Filename, "u"))
		return fmt.Sprintf("(JVUpload %d)", n)
	case []any:
		var items []string
		for _, e := range x {
			items = append(items, jvCoq(e))
		}
		return "(JVList " + gen.List(items) + ")"
	case map[string]any:
		return "(JVMap " + mapCoq(x) + ")"
	}
	panic(fmt.Sprintf("jvCoq: %T", v))
}

func mapCoq(m map[string]any) string {
	keys := make([]string, 0, len(m))
	for k := range m {
		keys = append(keys, k)
	}
	sort.Strings(keys)
	var items []string
	for _, k := range keys {
		items = append(items, fmt.Sprintf("(%s, %s)", gen.Str(k), jvCoq(m[k])))
	}
	return gen.List(items)
}

func varsCoq(m map[string]any) string {
	if m == nil {
		return "VNilMap"
	}
	return "(VMap " + mapCoq(m) + ")"
}

// shapes returns fresh copies of the variable shapes (AddUpload mutates in place).
func shapes() []func() map[string]any {
	return []func() map[string]any{
		func() map[string]any { return nil },
		func() map[string]any { return map[string]any{} },
		func() map[string]any { return map[string]any{"file": nil} },
		func() map[string]any { return map[string]any{"files": []any{nil, nil}, "x": "leaf1"} },
		func() map[string]any {
			return map[string]any{"a": map[string]any{"b": []any{map[string]any{"f": nil}, "leaf2"}, "0": nil}, "s": "leaf3"}
		},
		func() map[string]any { return map[string]any{"0": []any{[]any{nil}}, "l": []any{}} },
		func() map[string]any {
			return map[string]any{"in": map[string]any{"files": []any{nil, nil, nil}, "n": "leaf4"}}
		},
	}
}

var segAlphabet = []string{"file", "files", "a", "b", "f", "x", "s", "in", "l", "missing", "0", "1", "2", "5", "-1", "+0", "007", "", "9223372036854775808", "1e1"}

type upCase struct {
	Kind  string `json:"kind"`
	Shape int    `json:"shape"`
	Path  string `json:"path"`
	Obs   string `json:"observed"`
	Sig   string `json:"sig,omitempty"`
}

func runUpload(shape int, path string) (coq string, obs string) {
	p := &graphql.RawParams{Variables: shapes()[shape]()}
	before := varsCoq(p.Variables)
	var result string
	func() {
		defer func() {
			if r := recover(); r != nil {
				result = "UPanic"
				obs = fmt.Sprintf("panic: %v", r)
			}
		}()
		err := p.AddUpload(graphql.Upload{Filename: "u7"}, "key", path)
		if err != nil {
			result = "UErr"
			obs = "error: " + err.Message
		} else {
			result = "(UOk " + varsCoq(p.Variables) + ")"
			obs = "ok"
		}
	}()
	hasPrefix := strings.HasPrefix(path, "variables.")
	var segs []string
	if hasPrefix {
		for _, s := range strings.Split(path, ".")[1:] {
			if n, err := strconv.Atoi(s); err == nil {
				segs = append(segs, fmt.Sprintf("SegIdx %s %s", gen.Str(s), gen.Z(int64(n))))
			} else {
				segs = append(segs, "SegKey "+gen.Str(s))
			}
		}
	}
	coq = fmt.Sprintf("{| uc_prefix := %s; uc_vars := %s; uc_path := %s; uc_obs := %s |}", gen.Bool(hasPrefix), before, gen.List(segs), result)
	return coq, obs
}

func Run(c *gen.Ctx) error {
	r := gen.NewRand(c.Seed)
	meta := &gen.Meta{Property: "C10", Distribution: map[string]any{}}
	up := &gen.CaseFile{Dir: c.OutDir, Prop: "C10", Kind: "up", Requires: []string{"Base.Prelude", "Model.Upload", "Corr.Corr_C10"}, Type: "up_case",
		Checks: []gen.Check{{Label: "corr", Fn: "up_corr"}, {Label: "mon", Fn: "up_monitor"}}, Shard: 700}
	var descr []any
	outcomes := map[string]int{}
	distinct := map[string]bool{}
	add := func(shape int, path string) {
		coq, obs := runUpload(shape, path)
		up.Add(coq)
		sig := ""
		if strings.HasPrefix(obs, "panic") {
			sig = "addupload-panics-on-client-path"
		}
		descr = append(descr, upCase{"up", shape, path, obs, sig})
		outcomes[strings.SplitN(obs, ":", 2)[0]]++
		if obs != "error: invalid operations paths for key key" {
			distinct[fmt.Sprint(shape)+"|"+path] = true
		}
	}
	nshapes := len(shapes())
	for s := 0; s < nshapes; s++ {
		for _, p := range []string{"", "variables", "variable.file", "variables.", "Variables.file", "x.variables.file"} {
			add(s, p)
		}
		for _, a := range segAlphabet {
			add(s, "variables."+a)
			for _, b := range segAlphabet {
				add(s, "variables."+a+"."+b)
			}
		}
	}
	n3 := 600
	if c.Thorough() {
		n3 = 0
		for s := 0; s < nshapes; s++ {
			for _, a := range segAlphabet {
				for _, b := range segAlphabet {
					for _, d := range segAlphabet {
						add(s, "variables."+a+"."+b+"."+d)
					}
				}
			}
		}
	}
	for i := 0; i < n3; i++ {
		n := 3 + r.Intn(3)
		var parts []string
		for j := 0; j < n; j++ {
			parts = append(parts, gen.Pick(r, segAlphabet))
		}
		add(r.Intn(nshapes), "variables."+strings.Join(parts, "."))
	}
	if err := meta.AddCaseFile(up, descr); err != nil {
		return err
	}
	meta.Distribution["addupload_outcomes"] = outcomes
	meta.Distribution["addupload_cases"] = up.Len()
	meta.Samples = append(meta.Samples, descr[30], descr[len(descr)-1])
	nt, err := runTransports(c, r.Fork(9), meta)
	if err != nil {
		return err
	}
	nu, err := runUploads(c, r.Fork(10), meta)
	if err != nil {
		return err
	}
	nt += nu
	nt += nestedListVariables(meta)
	meta.Evaluations = up.Len() + nt
	meta.DistinctNontrivial += len(distinct)
	meta.Rule = meta.Rule + " || AddUpload: 7 variable shapes (no variables, empty, null leaf, list, nested maps/lists incl. numeric-looking keys) x all map paths of 1 and 2 segments over a 20-segment alphabet (existing and missing keys, in-range, out-of-range, negative, signed, zero-padded, overflowing and non-numeric indices, empty segment) plus paths without the prefix, plus random (quick) or all (thorough) 3..5-segment paths; distinct_nontrivial = distinct (shape, path) pairs that pass the prefix test. Transports: see distribution."
	return meta.Write(c.OutDir)
}
