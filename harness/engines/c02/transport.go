package c02

import (
	"context"
	"encoding/json"
	"fmt"
	"net/http/httptest"
	"sort"
	"strings"

	"github.com/vektah/gqlparser/v2"
	"github.com/vektah/gqlparser/v2/ast"
	"github.com/vektah/gqlparser/v2/validator"

	"github.com/99designs/gqlgen/graphql"
	"github.com/99designs/gqlgen/graphql/handler"
	"github.com/99designs/gqlgen/graphql/handler/transport"

	"verifharness/gen"
)

var tvSchema = gqlparser.MustLoadSchema(&ast.Source{Name: "tv.graphqls", Input: `input P { a: Int b: String = "d" }
type Query { f(arg: Int = 123, s: String, p: P): Int }`})

// transportVariables: the variables an operation is executed with are those of ITS request.  Histories of POST
// requests go through one handler.Server (the POST transport recycles its parameter object); what the executor is
// given as coerced variables for each request must be what its own variables coerce to - a variable the
// request does not carry is absent (so that argument and variable defaults apply), whatever earlier requests carried.
func render(vars map[string]any) string {
	keys := make([]string, 0, len(vars))
	for k := range vars {
		keys = append(keys, k)
	}
	sort.Strings(keys)
	var parts []string
	for _, k := range keys {
		b, _ := json.Marshal(vars[k])
		parts = append(parts, k+"="+string(b))
	}
	return "{" + strings.Join(parts, ", ") + "}"
}

func transportVariables(r *gen.Rand, meta *gen.Meta, thorough bool) int {
	type rq struct {
		Query string         `json:"query"`
		Vars  map[string]any `json:"variables,omitempty"`
		Null  bool           `json:"variables_null,omitempty"` // "variables": null
	}
	alphabet := []rq{
		{Query: `query($arg: Int) { f(arg: $arg) }`, Vars: map[string]any{"arg": 7}},
		{Query: `query($arg: Int) { f(arg: $arg) }`},
		{Query: `query($arg: Int = 5) { f(arg: $arg) }`},
		{Query: `query($arg: Int = 5) { f(arg: $arg) }`, Vars: map[string]any{"arg": nil}},
		{Query: `query($arg: Int, $s: String) { f(arg: $arg, s: $s) }`, Vars: map[string]any{"s": "x"}},
		{Query: `query($arg: Int, $s: String) { f(arg: $arg, s: $s) }`, Vars: map[string]any{"arg": 8, "s": "y"}},
		{Query: `query($p: P) { f(p: $p) }`, Vars: map[string]any{"p": map[string]any{"a": 1}}},
		{Query: `query($p: P) { f(p: $p) }`},
		{Query: `query($p: P) { f(p: $p) }`, Null: true},
		{Query: `{ f }`},
	}
	mk := func(seen *string) *handler.Server {
		es := &graphql.ExecutableSchemaMock{
			SchemaFunc:     func() *ast.Schema { return tvSchema },
			ComplexityFunc: func(ctx context.Context, t, f string, c int, a map[string]any) (int, bool) { return 0, false },
			ExecFunc: func(ctx context.Context) graphql.ResponseHandler {
				*seen = render(graphql.GetOperationContext(ctx).Variables)
				return graphql.OneShot(&graphql.Response{Data: []byte(`{"f":1}`)})
			},
		}
		srv := handler.New(es)
		srv.AddTransport(transport.POST{})
		return srv
	}
	send := func(srv *handler.Server, seen *string, q rq) string {
		*seen = "not executed"
		m := map[string]any{"query": q.Query}
		if q.Vars != nil || q.Null {
			m["variables"] = q.Vars
		}
		b, _ := json.Marshal(m)
		req := httptest.NewRequest("POST", "/query", strings.NewReader(string(b)))
		req.Header.Set("Content-Type", "application/json")
		srv.ServeHTTP(httptest.NewRecorder(), req)
		return *seen
	}
	n, bad := 0, 0
	histories := 400
	if thorough {
		histories = 6000
	}
	for h := 0; h < histories; h++ {
		var seen string
		srv := mk(&seen)
		var hist []rq
		for k := 2 + r.Intn(3); k > 0; k-- {
			hist = append(hist, gen.Pick(r, alphabet))
		}
		for i, q := range hist {
			n++
			got := send(srv, &seen, q)
			// what the request's own variables coerce to (gqlparser, no transport: the POST transport's pool is a
			// package variable, so another server is no independent witness)
			want := "not executed"
			if doc, perr := gqlparser.LoadQuery(tvSchema, q.Query); perr == nil {
				if vv, verr := validator.VariableValues(tvSchema, doc.Operations[0], q.Vars); verr == nil {
					want = render(vv)
				}
			}
			if got != want {
				bad++
				if bad <= 3 {
					meta.Direct = append(meta.Direct, gen.DirectFinding{Signature: "variables-of-another-request",
						What:   fmt.Sprintf("request %d of a history of POST requests (%s with variables %v) was executed with the variables %s; its own variables coerce to %s", i, q.Query, q.Vars, got, want),
						Replay: map[string]any{"history": hist, "request": i}})
				}
			}
		}
	}
	meta.Notes = append(meta.Notes, fmt.Sprintf("%d POST requests in %d histories through one handler.Server (variables present, absent, null, partly present; variable and argument defaults; an input object): the coerced variables the executor is given must be those its own variables coerce to (gqlparser); %d differed", n, histories, bad))
	return n
}
