// Package c02: resolvers receive arguments exactly as GraphQL input coercion defines.  A probe server
// with one many-argument field is generated from the current templates under several input-related
// configuration options; argument literals and variables are generated (defaults, omitted vs explicit
// null, nested input objects, single-value-to-list, enums, unset variables inside literals); the
// universal resolver logs the Go values it received, which are abstracted and compared with the model of
// gqlgen (correspondence) and with the specification's coercion (monitor).
package c02

import (
	"encoding/json"
	"fmt"
	"reflect"
	"sort"
	"strings"

	"github.com/vektah/gqlparser/v2"
	"github.com/vektah/gqlparser/v2/ast"
	"github.com/vektah/gqlparser/v2/validator"

	"verifharness/engines/c08"
	"verifharness/engines/xeng"
	"verifharness/gen"
)

const schemaText = `directive @goField(forceResolver: Boolean, name: String, omittable: Boolean) on INPUT_FIELD_DEFINITION | FIELD_DEFINITION
enum Color { RED GREEN BLUE }
scalar Fragile
input Inner { n: Int s: String = "dflt" req: Int! }
input Pg { lim: Int! = 10 off: Int = 0 }
input In { a: Int b: String inner: Inner list: [Int!] color: Color = GREEN wd: Int = 7 nested: [[Int!]!] flag: Boolean frs: [Fragile!] z0: Int = 0 zb: Boolean = false zs: String = "" zl: [Int!] = [] pg: Pg = {} pgs: Pg! = {} }
type Query {
  f(i: Int, s: String = "d", req: Int!, l: [Int], ll: [[Int!]!], in: In, ins: [In!], c: Color, id: ID, b: Boolean, fl: [Fragile!], fll: [[Fragile!]!]): String
}
`

var schema = gqlparser.MustLoadSchema(&ast.Source{Name: "schema.graphqls", Input: schemaText})

func yaml(extra string) string {
	return "schema:\n  - schema.graphqls\nexec:\n  filename: graph/generated.go\n  package: graph\nmodel:\n  filename: graph/models_gen.go\n  package: graph\n" +
		"resolver:\n  layout: follow-schema\n  dir: graph\n  package: graph\n  filename_template: \"{name}.resolvers.go\"\n" +
		"models:\n  Fragile:\n    model: probe/graph.Fragile\n" + extra
}

var configs = []xeng.Config{
	{Name: "defaults", YAML: yaml("")},
	{Name: "omittable+pointers-in-unmarshalinput", YAML: yaml("nullable_input_omittable: true\nreturn_pointers_in_unmarshalinput: true\n")},
	{Name: "argdirectives-with-null+struct-fields-not-pointers", YAML: yaml("call_argument_directives_with_null: true\nstruct_fields_always_pointers: false\n")},
}

func ityCoq(t *ast.Type) string {
	if t.Elem != nil {
		return fmt.Sprintf("(TyList %s %s)", ityCoq(t.Elem), gen.Bool(t.NonNull))
	}
	return fmt.Sprintf("(TyNamed %s %s)", gen.Str(t.NamedType), gen.Bool(t.NonNull))
}

func ivalCoq(v any) string {
	switch x := v.(type) {
	case nil:
		return "VNull"
	case int64:
		return "(VInt " + gen.Z(x) + ")"
	case int:
		return "(VInt " + gen.Z(int64(x)) + ")"
	case json.Number:
		if n, err := x.Int64(); err == nil {
			return "(VInt " + gen.Z(n) + ")"
		}
		return "(VFloat " + gen.Str(x.String()) + ")"
	case float64:
		if x == float64(int64(x)) {
			return "(VInt " + gen.Z(int64(x)) + ")"
		}
		return "(VFloat " + gen.Str(fmt.Sprint(x)) + ")"
	case string:
		return "(VStr " + gen.Str(x) + ")"
	case bool:
		return "(VBool " + gen.Bool(x) + ")"
	case []any:
		var items []string
		for _, e := range x {
			items = append(items, ivalCoq(e))
		}
		return "(VList " + gen.List(items) + ")"
	case map[string]any:
		keys := make([]string, 0, len(x))
		for k := range x {
			keys = append(keys, k)
		}
		sort.Strings(keys)
		var items []string
		for _, k := range keys {
			items = append(items, fmt.Sprintf("(%s, %s)", gen.Str(k), ivalCoq(x[k])))
		}
		return "(VObj " + gen.List(items) + ")"
	}
	// gqlparser's VariableValues wraps single values into typed slices ([]map[string]any, []int64, ...)
	rv := reflect.ValueOf(v)
	switch rv.Kind() {
	case reflect.Slice:
		var items []string
		for i := 0; i < rv.Len(); i++ {
			items = append(items, ivalCoq(rv.Index(i).Interface()))
		}
		return "(VList " + gen.List(items) + ")"
	case reflect.Int, reflect.Int32, reflect.Int64:
		return "(VInt " + gen.Z(rv.Int()) + ")"
	case reflect.String:
		return "(VStr " + gen.Str(rv.String()) + ")"
	case reflect.Ptr, reflect.Interface:
		if rv.IsNil() {
			return "VNull"
		}
		return ivalCoq(rv.Elem().Interface())
	}
	return "(VStr \"unprintable\"%string)"
}

func ischemaCoq(omittable bool) string {
	var items []string
	for _, n := range []string{"Color", "Inner", "Pg", "In"} {
		d := schema.Types[n]
		switch d.Kind {
		case ast.Enum:
			var vs []string
			for _, v := range d.EnumValues {
				vs = append(vs, gen.Str(v.Name))
			}
			items = append(items, fmt.Sprintf("(%s, NEnum %s)", gen.Str(n), gen.List(vs)))
		case ast.InputObject:
			var fs []string
			for _, f := range d.Fields {
				def := "None"
				if f.DefaultValue != nil {
					v, _ := f.DefaultValue.Value(nil)
					def = "(Some " + ivalCoq(v) + ")"
				}
				fs = append(fs, fmt.Sprintf("{| if_name := %s; if_type := %s; if_default := %s; if_omittable := %s |}", gen.Str(f.Name), ityCoq(f.Type), def, gen.Bool(omittable && !f.Type.NonNull)))
			}
			items = append(items, fmt.Sprintf("(%s, NInput %s)", gen.Str(n), gen.List(fs)))
		}
	}
	return gen.List(items)
}

// avalCoq abstracts the driver's canonical rendering of a received Go value.
func avalCoq(v any) string {
	switch x := v.(type) {
	case nil:
		return "ANull"
	case []any:
		var items []string
		for _, e := range x {
			items = append(items, avalCoq(e))
		}
		return "(AList " + gen.List(items) + ")"
	case map[string]any:
		if _, ok := x["$omitted"]; ok {
			return "AOmitted"
		}
		if s, ok := x["$set"]; ok {
			return avalCoq(s)
		}
		if ord, ok := x["$order"]; ok {
			var items []string
			for _, k := range ord.([]any) {
				items = append(items, fmt.Sprintf("(%s, %s)", gen.Str(k.(string)), avalCoq(x[k.(string)])))
			}
			return "(AObj " + gen.List(items) + ")"
		}
		for k, val := range x { // type-tagged scalar
			switch {
			case strings.HasSuffix(k, "Color"):
				return "(AEnum " + gen.Str(val.(string)) + ")"
			case k == "string" || strings.HasSuffix(k, "Fragile"):
				return "(AStr " + gen.Str(val.(string)) + ")"
			case k == "bool":
				return "(ABool " + gen.Bool(val.(bool)) + ")"
			case strings.HasPrefix(k, "int"):
				n, _ := val.(json.Number).Int64()
				return "(AInt " + gen.Z(n) + ")"
			case strings.HasPrefix(k, "float"):
				return "(AFloat " + gen.Str(fmt.Sprint(val)) + ")"
			}
		}
	}
	return "(AStr \"?\"%string)"
}

// specValue evaluates an argument value as the specification does: inside an object literal a field whose
// value is a variable that was given no value (and has no default) is omitted.
func specValue(v *ast.Value, vars map[string]any) (any, bool) {
	switch v.Kind {
	case ast.Variable:
		if val, ok := vars[v.Raw]; ok {
			return val, true
		}
		if v.VariableDefinition != nil && v.VariableDefinition.DefaultValue != nil {
			d, _ := v.VariableDefinition.DefaultValue.Value(vars)
			return d, true
		}
		return nil, false
	case ast.ListValue:
		out := []any{}
		for _, c := range v.Children {
			x, _ := specValue(c.Value, vars)
			out = append(out, x)
		}
		return out, true
	case ast.ObjectValue:
		out := map[string]any{}
		for _, c := range v.Children {
			if x, ok := specValue(c.Value, vars); ok {
				out[c.Name] = x
			}
		}
		return out, true
	}
	x, _ := v.Value(vars)
	return x, true
}

type genCtx struct {
	r     *gen.Rand
	vdefs []string
	vars  map[string]any
}

func (g *genCtx) literal(t *ast.Type, depth int) string {
	if !t.NonNull && g.r.Chance(1, 7) {
		return "null"
	}
	if t.Elem != nil {
		if g.r.Chance(1, 4) && depth < 3 {
			return g.literal(t.Elem, depth+1) // single value where a list is expected
		}
		n := g.r.Intn(4)
		var items []string
		for i := 0; i < n; i++ {
			e := g.literal(t.Elem, depth+1)
			if e == "null" && t.Elem.NonNull {
				e = "1"
			}
			items = append(items, e)
		}
		return "[" + strings.Join(items, ", ") + "]"
	}
	def := schema.Types[t.NamedType]
	if def.Kind == ast.InputObject {
		var parts []string
		for _, f := range def.Fields {
			required := f.Type.NonNull && f.DefaultValue == nil
			if !required && g.r.Chance(1, 2) {
				continue
			}
			// sometimes through a variable, sometimes through a variable that gets no value
			if !required && f.Type.Elem == nil && g.r.Chance(1, 5) {
				name := fmt.Sprintf("u%d", len(g.vdefs))
				g.vdefs = append(g.vdefs, fmt.Sprintf("$%s: %s", name, strings.TrimSuffix(f.Type.String(), "!")))
				if g.r.Chance(1, 2) {
					g.vars[name] = g.jsonValue(f.Type, depth+1)
				}
				parts = append(parts, f.Name+": $"+name)
				continue
			}
			parts = append(parts, f.Name+": "+g.literal(f.Type, depth+1))
		}
		return "{" + strings.Join(parts, ", ") + "}"
	}
	switch t.NamedType {
	case "Int":
		return fmt.Sprint([]int64{0, 1, -1, 7, 2147483647, -2147483648, 2147483648, 9007199254740993}[g.r.Intn(8)])
	case "Boolean":
		return fmt.Sprint(g.r.Bool())
	case "Color":
		return gen.Pick(g.r, []string{"RED", "GREEN", "BLUE"})
	case "ID":
		return gen.Pick(g.r, []string{`"x1"`, `7`, `"007"`})
	case "Fragile":
		// a user scalar whose unmarshaler refuses "bad": the one failure validation cannot see
		return gen.Pick(g.r, []string{`"ok"`, `"fine"`, `"ok"`, `"bad"`})
	}
	return gen.Pick(g.r, []string{`"s"`, `""`, `"with space"`, `"5"`})
}

func (g *genCtx) jsonValue(t *ast.Type, depth int) any {
	if !t.NonNull && g.r.Chance(1, 7) {
		return nil
	}
	if t.Elem != nil {
		if g.r.Chance(1, 4) && depth < 3 {
			return g.jsonValue(t.Elem, depth+1)
		}
		out := []any{}
		for i := g.r.Intn(4); i > 0; i-- {
			e := g.jsonValue(t.Elem, depth+1)
			if e == nil && t.Elem.NonNull {
				e = 1
			}
			out = append(out, e)
		}
		return out
	}
	def := schema.Types[t.NamedType]
	if def.Kind == ast.InputObject {
		out := map[string]any{}
		for _, f := range def.Fields {
			required := f.Type.NonNull && f.DefaultValue == nil
			if !required && g.r.Chance(1, 2) {
				continue
			}
			out[f.Name] = g.jsonValue(f.Type, depth+1)
		}
		return out
	}
	switch t.NamedType {
	case "Int":
		return []int64{0, 1, -1, 7, 2147483647, -2147483648, 2147483648}[g.r.Intn(7)]
	case "Boolean":
		return g.r.Bool()
	case "Color":
		return gen.Pick(g.r, []string{"RED", "GREEN", "BLUE"})
	case "ID":
		return gen.Pick(g.r, []any{"x1", 7, "007"})
	case "Fragile":
		return gen.Pick(g.r, []string{"ok", "fine", "ok", "bad"})
	}
	return gen.Pick(g.r, []string{"s", "", "with space"})
}

type descr struct {
	Query    string         `json:"query"`
	Vars     map[string]any `json:"variables"`
	Arg      string         `json:"argument"`
	Config   string         `json:"config"`
	Provided string         `json:"provided_by_gqlparser"`
	Spec     string         `json:"provided_per_spec"`
	Received string         `json:"received"`
	Sig      string         `json:"sig,omitempty"`
}

func Run(c *gen.Ctx) error {
	r := gen.NewRand(c.Seed)
	meta := &gen.Meta{Property: "C02"}
	probes, err := xeng.BuildProbes(schemaText, configs, nil)
	if err != nil {
		return err
	}
	for _, p := range probes {
		if p.Built.GenErr != "" || p.Built.BuildErr != "" {
			meta.Direct = append(meta.Direct, gen.DirectFinding{Signature: "probe-does-not-build", What: "probe server failed to build for " + p.Cfg.Name, Replay: map[string]any{"generate": p.Built.GenErr, "build": p.Built.BuildErr}})
			meta.Evaluations = 1
			return meta.Write(c.OutDir)
		}
	}
	nreq := 120
	if c.Thorough() {
		nreq = 3000
	}
	fdef := schema.Query.Fields.ForName("f")
	type req struct {
		query string
		raw   map[string]any
		op    *ast.OperationDefinition
		vars  map[string]any
	}
	var reqs []req
	invalid := 0
	for len(reqs) < nreq {
		g := &genCtx{r: r, vars: map[string]any{}}
		var parts []string
		for _, a := range fdef.Arguments {
			required := a.Type.NonNull && a.DefaultValue == nil
			if !required && r.Chance(1, 3) {
				continue
			}
			if r.Chance(1, 4) {
				name := fmt.Sprintf("v%d", len(g.vdefs))
				decl := fmt.Sprintf("$%s: %s", name, a.Type.String())
				switch r.Intn(3) {
				case 0:
					g.vars[name] = g.jsonValue(a.Type, 0)
				case 1:
					if !a.Type.NonNull { // no value at all
						break
					}
					g.vars[name] = g.jsonValue(a.Type, 0)
				default:
					lit := g.literal(a.Type, 0)
					if !strings.Contains(lit, "$") {
						decl += " = " + lit
					} else {
						g.vars[name] = g.jsonValue(a.Type, 0)
					}
				}
				g.vdefs = append(g.vdefs, decl)
				parts = append(parts, a.Name+": $"+name)
				continue
			}
			parts = append(parts, a.Name+": "+g.literal(a.Type, 0))
		}
		q := "query Op"
		if len(g.vdefs) > 0 {
			q += "(" + strings.Join(g.vdefs, ", ") + ")"
		}
		q += " { f(" + strings.Join(parts, ", ") + ") }"
		doc, errs := gqlparser.LoadQuery(schema, q)
		if errs != nil {
			invalid++
			continue
		}
		// the variables as a transport would decode them (encoding/json with UseNumber)
		var wire map[string]any
		jb, _ := json.Marshal(g.vars)
		jd := json.NewDecoder(strings.NewReader(string(jb)))
		jd.UseNumber()
		_ = jd.Decode(&wire)
		vars, verr := validator.VariableValues(schema, doc.Operations[0], wire)
		if verr != nil {
			invalid++
			continue
		}
		reqs = append(reqs, req{q, g.vars, doc.Operations[0], vars})
	}
	cf := &gen.CaseFile{Dir: c.OutDir, Prop: "C02", Kind: "arg", Requires: []string{"Base.Prelude", "Model.Args", "Corr.Corr_C02"}, Type: "arg_case",
		Checks: []gen.Check{{Label: "corr", Fn: "arg_corr"}, {Label: "mon", Fn: "arg_monitor"}, {Label: "mongp", Fn: "arg_monitor_gqlparser_view"}}, Shard: 400}
	cf.Preamble = "Definition isch (o : bool) : ischema := if o then " + ischemaCoq(true) + " else " + ischemaCoq(false) + "."
	var cases []xeng.Case
	for i, rq := range reqs {
		cases = append(cases, xeng.Case{ID: i, Query: rq.query, Variables: rq.raw, Oracle: xeng.NewOracle()})
	}
	var descrs []any
	distinct := map[string]bool{}
	stats := map[string]int{}
	for pi, p := range probes {
		omittable := strings.Contains(p.Cfg.Name, "omittable")
		results, err := xeng.RunAll(p.Built.Bin, cases)
		if err != nil {
			return err
		}
		for i, rq := range reqs {
			res := results[i]
			field := rq.op.SelectionSet[0].(*ast.Field)
			provided := field.ArgumentMap(rq.vars)
			if res.Crashed || res.Hang || len(res.Responses) == 0 {
				meta.Direct = append(meta.Direct, gen.DirectFinding{Signature: "probe-crash-or-hang", What: "the generated server crashed or hung while coercing arguments", Replay: map[string]any{"config": p.Cfg.Name, "query": rq.query, "variables": rq.raw}})
				continue
			}
			var received []any
			called := false
			if a, ok := res.Args["f"]; ok {
				called = true
				rd := json.NewDecoder(strings.NewReader(a))
				rd.UseNumber()
				_ = rd.Decode(&received)
			}
			first, _ := res.First()
			for ai, a := range fdef.Arguments {
				prov := "None"
				if v, ok := provided[a.Name]; ok {
					prov = "(Some " + ivalCoq(v) + ")"
				}
				// the specification's view of what was provided
				specProv := "None"
				if argAst := field.Arguments.ForName(a.Name); argAst != nil {
					if v, ok := specValue(argAst.Value, rq.vars); ok {
						specProv = "(Some " + ivalCoq(v) + ")"
					}
				}
				if specProv == "None" && a.DefaultValue != nil {
					d, _ := a.DefaultValue.Value(nil)
					specProv = "(Some " + ivalCoq(d) + ")"
				}
				obs := "ObsOther"
				recv := ""
				switch {
				case called && ai < len(received):
					obs = "(ObsCalled " + avalCoq(received[ai]) + ")"
					b, _ := json.Marshal(received[ai])
					recv = string(b)
				case !called && len(first.Errors) > 0:
					var path []string
					for _, seg := range strings.Split(xengPath(first.Errors[0].Path), ".")[1:] {
						path = append(path, gen.Str(seg))
					}
					if len(path) > 0 && strings.Trim(path[0], "\"%string") == a.Name {
						obs = "(ObsError " + gen.List(path[1:]) + ")"
					} else {
						continue // the error belongs to another argument: nothing observed for this one
					}
				}
				sig := ""
				if prov != specProv {
					sig = "unset-variable-inside-literal-becomes-null"
					stats["spec_and_gqlparser_disagree_on_provided"]++
				}
				// correspondence uses what gqlparser provided, the monitor what the specification says was provided
				cf.Add(fmt.Sprintf("{| ac_schema := isch %s; ac_type := %s; ac_provided := %s; ac_spec_provided := %s; ac_obs := %s |}", gen.Bool(omittable), ityCoq(a.Type), prov, specProv, obs))
				descrs = append(descrs, descr{rq.query, rq.raw, a.Name, p.Cfg.Name, prov, specProv, recv, sig})
				stats["arg_"+a.Name]++
				if pi == 0 && prov != "None" {
					distinct[a.Name+"|"+prov] = true
				}
			}
		}
	}
	if err := meta.AddCaseFile(cf, descrs); err != nil {
		return err
	}
	// the scalar layer: every integer unmarshaler over the dynamic-value table (no numeric input silently changed)
	nunm, unmOutcomes, _, err := c08.AddUnm(c, meta, "C02", []string{"Base.Prelude", "Base.Utf8", "Base.Json", "Model.Scalars", "Corr.Corr_C08"})
	if err != nil {
		return err
	}
	stats["scalar_unmarshal_cases"] = nunm
	stats["scalar_unmarshal_ok"] = unmOutcomes["ok"]
	meta.Evaluations = cf.Len() + nunm
	meta.Programs = len(probes)
	meta.DistinctNontrivial = len(distinct)
	meta.Rule = "one field with 10 arguments (Int, String with default, Int!, [Int], [[Int!]!], input object with nested input, defaults, enum, lists; list of inputs; enum; ID; Boolean) on probe servers generated from the current templates under {defaults; nullable_input_omittable + return_pointers_in_unmarshalinput; call_argument_directives_with_null + struct_fields_always_pointers=false}; each argument given by literal, variable with value, variable without value, or variable default; explicit nulls, omitted fields, single values where lists are expected, variables inside object literals with and without values; one Coq case per (request, argument). distinct_nontrivial = distinct (argument, provided value) pairs."
	meta.Samples = []any{descrs[0], descrs[len(descrs)/2]}
	meta.Distribution = map[string]any{"requests": len(reqs), "generated_but_invalid_discarded": invalid, "configurations": len(probes), "by_argument": stats}
	transportVariables(gen.NewRand(c.Seed+61), meta, c.Thorough())
	return meta.Write(c.OutDir)
}

func xengPath(p []any) string {
	var segs []string
	for _, x := range p {
		switch v := x.(type) {
		case string:
			segs = append(segs, v)
		case float64:
			segs = append(segs, fmt.Sprint(int(v)))
		}
	}
	return strings.Join(segs, ".")
}
