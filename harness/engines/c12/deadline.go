package c12

import (
	"bytes"
	"context"
	"encoding/json"
	"fmt"
	"io"
	"net/http"
	"net/http/httptest"
	"strings"
	"time"

	"github.com/vektah/gqlparser/v2/ast"

	"github.com/99designs/gqlgen/graphql"
	"github.com/99designs/gqlgen/graphql/handler"
	"github.com/99designs/gqlgen/graphql/handler/transport"

	"verifharness/gen"
)

// opTimeout: an extension that gives every operation a deadline of its own.
type opTimeout struct{ d time.Duration }

func (opTimeout) ExtensionName() string                          { return "OperationTimeout" }
func (opTimeout) Validate(schema graphql.ExecutableSchema) error { return nil }
func (o opTimeout) InterceptOperation(ctx context.Context, next graphql.OperationHandler) graphql.ResponseHandler {
	ctx, cancel := context.WithTimeout(ctx, o.d)
	inner := next(ctx)
	return func(c context.Context) *graphql.Response {
		resp := inner(ctx)
		if resp == nil {
			cancel()
		}
		return resp
	}
}

// deadlineStreams: a stream that the SERVER ends - an operation timeout set by an extension, or a deadline a
// middleware put on the request - while the client is still connected and reading.  For the client this is an
// ordinary end of the stream: every payload once and in order, then (SSE) exactly one complete event / (multipart)
// the closing boundary, with and without keep-alive pings.
func deadlineStreams(c *gen.Ctx, meta *gen.Meta) int {
	n, slow := 0, 0
	cf := &gen.CaseFile{Dir: c.OutDir, Prop: "C12", Kind: "cutshort", Requires: []string{"Base.Prelude", "Model.Sse", "Model.Multipart", "Corr.Corr_C12"}, Type: "c12_case",
		Checks: []gen.Check{{Label: "corr", Fn: "c12_corr"}, {Label: "mon", Fn: "c12_mon"}, {Label: "monmodel", Fn: "c12_monmodel"}}, Shard: 150}
	var descr []any
	defer func() { _ = meta.AddCaseFile(cf, descr) }()
	for _, kind := range []string{"sse", "multipart"} {
		for _, how := range []string{"an operation timeout set by an extension", "a deadline a middleware put on the request"} {
			for _, keepAlive := range []time.Duration{0, 4 * time.Millisecond} {
				// the deadline leaves room for several payloads; on a machine so busy that none arrives in time the
				// scenario is run again with more room (and left out if even a second is not enough)
				for attempt, deadline := range []time.Duration{40 * time.Millisecond, 200 * time.Millisecond, time.Second} {
					n++
					es := &graphql.ExecutableSchemaMock{
						SchemaFunc: func() *ast.Schema { return schema },
						ComplexityFunc: func(ctx context.Context, typeName, fieldName string, childComplexity int, args map[string]any) (int, bool) {
							return 0, false
						},
						ExecFunc: func(ctx context.Context) graphql.ResponseHandler {
							i := 0
							return func(ctx context.Context) *graphql.Response {
								select {
								case <-ctx.Done():
									return nil // the subscription ends with its context
								case <-time.After(6 * time.Millisecond):
								}
								i++
								more := true
								return &graphql.Response{Data: json.RawMessage(fmt.Sprintf(`{"n":%d}`, i)), HasNext: &more}
							}
						},
					}
					srv := handler.New(es)
					srv.AddTransport(transport.SSE{KeepAlivePingInterval: keepAlive})
					srv.AddTransport(transport.MultipartMixed{Boundary: "graphql"})
					var h http.Handler = srv
					if how == "an operation timeout set by an extension" {
						srv.Use(opTimeout{deadline})
					} else {
						h = http.HandlerFunc(func(w http.ResponseWriter, r *http.Request) {
							ctx, cancel := context.WithTimeout(r.Context(), deadline)
							defer cancel()
							srv.ServeHTTP(w, r.WithContext(ctx))
						})
					}
					ts := httptest.NewServer(h)
					req, _ := http.NewRequest("POST", ts.URL, bytes.NewReader([]byte(`{"query":"{ a }"}`)))
					req.Header.Set("Content-Type", "application/json")
					req.Header.Set("Accept", map[string]string{"sse": "text/event-stream", "multipart": "multipart/mixed"}[kind])
					resp, err := (&http.Client{Timeout: 15 * time.Second}).Do(req)
					var body []byte
					ct := ""
					if err == nil {
						body, err = io.ReadAll(resp.Body)
						ct = resp.Header.Get("Content-Type")
						resp.Body.Close()
					}
					ts.Close()
					problem := ""
					payloads := 0
					for bytes.Contains(body, []byte(fmt.Sprintf(`{"n":%d}`, payloads+1))) {
						payloads++
					}
					switch {
					case err != nil:
						problem = "the client could not read the stream: " + err.Error()
					case payloads == 0:
						if attempt < 2 {
							continue
						}
						slow++
					case kind == "sse":
						s := string(body)
						if !strings.HasSuffix(s, "event: complete\n\n") || strings.Count(s, "event: complete") != 1 {
							problem = "the stream does not end with exactly one complete event"
						}
					default:
						if _, perr := mimeParts(body, ct); perr != nil {
							problem = "mime/multipart cannot read the parts: " + perr.Error()
						} else if bytes.Count(body, []byte("--graphql--")) != 1 || !bytes.HasSuffix(body, []byte("--graphql--\r\n")) {
							problem = fmt.Sprintf("the closing boundary appears %d times (and must be last)", bytes.Count(body, []byte("--graphql--")))
						}
					}
					if problem == "" && kind == "multipart" {
						// the stream as a case for the aggregator model: the payloads sent all announced more
						toks, terr := tokens(body, "graphql")
						if terr != nil {
							problem = "the body is not a sequence of boundary lines, part headers, JSON bodies and CRLFs: " + terr.Error()
						} else {
							var sent []string
							for i := 1; i <= payloads; i++ {
								sent = append(sent, fmt.Sprintf("{| p_id := %d%%nat; p_hasnext := true |}", i))
							}
							cf.Add(fmt.Sprintf("KMulti %s %s", gen.List(sent), gen.List(toks)))
							descr = append(descr, map[string]any{"transport": kind, "ended_by": how, "keep_alive": keepAlive.String(), "body": string(body)})
						}
					}
					for i := 1; i <= payloads && problem == ""; i++ {
						if c := bytes.Count(body, []byte(fmt.Sprintf(`{"n":%d}`, i))); c != 1 {
							problem = fmt.Sprintf("payload %d appears %d times", i, c)
						}
					}
					if payloads == 0 {
						break
					}
					if problem != "" {
						meta.Direct = append(meta.Direct, gen.DirectFinding{Signature: "server-ended-stream-not-well-framed:" + kind,
							What:   fmt.Sprintf("%s, a stream ended by %s while the client is reading (keep-alive %v): %s; received %q", kind, how, keepAlive, problem, body),
							Replay: map[string]any{"transport": kind, "ended_by": how, "keep_alive": keepAlive.String(), "body": string(body)}})
					}
					break
				}
			}
		}
	}
	if slow > 0 {
		meta.Notes = append(meta.Notes, fmt.Sprintf("%d scenarios left out: no payload arrived within a second", slow))
	}
	meta.Notes = append(meta.Notes, fmt.Sprintf("%d streams ended by the server (operation timeout of an extension / request deadline of a middleware) while the client reads, with and without keep-alive: every payload once, then exactly one complete event / closing boundary", n))
	return n
}
