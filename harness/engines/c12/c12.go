// Package c12 reads the raw bytes of SSE and multipart/mixed responses from a real httptest.Server connection
// while sweeping payload counts, the timing of payload production, keep-alive intervals and aggregator flush
// intervals, and prints them (SSE: bytes; multipart: strictly split tokens) as Coq terms for Corr_C12.
package c12

import (
	"bytes"
	"context"
	"encoding/json"
	"fmt"
	"io"
	"mime"
	"mime/multipart"
	"net/http"
	"net/http/httptest"
	"strings"
	"sync"
	"sync/atomic"
	"time"

	"github.com/vektah/gqlparser/v2"
	"github.com/vektah/gqlparser/v2/ast"

	"github.com/99designs/gqlgen/graphql"
	"github.com/99designs/gqlgen/graphql/handler"
	"github.com/99designs/gqlgen/graphql/handler/transport"

	"verifharness/gen"
)

var schema = gqlparser.MustLoadSchema(&ast.Source{Name: "s.graphqls", Input: `type Query { a(k: Int, size: Int): String }`})

// plan: the payloads an operation produces and the pause before each (microseconds, spin-waited for precision)
type plan struct {
	Kind      string `json:"kind"` // sse | multipart
	Delays    []int  `json:"delays_us"`
	KeepAlive int    `json:"keepalive_us,omitempty"`   // SSE keep-alive interval
	Flush     int    `json:"flush_us,omitempty"`       // multipart aggregator interval (0: the transport's default)
	Linger    int    `json:"linger_us,omitempty"`      // the handler's caller keeps the connection this long after the transport returned
	Text      bool   `json:"text,omitempty"`           // payload data with characters JSON escapes (quotes, line breaks, unicode)
	ErrFields int    `json:"unknown_fields,omitempty"` // SSE: the query selects this many unknown fields: the operation cannot be created and one (large) error event is written
}

func spin(us int) {
	if us <= 0 {
		return
	}
	if us >= 500 {
		time.Sleep(time.Duration(us) * time.Microsecond)
		return
	}
	t := time.Now().Add(time.Duration(us) * time.Microsecond)
	for time.Now().Before(t) {
	}
}

var recovered int64

func newServer(p plan) *httptest.Server {
	es := &graphql.ExecutableSchemaMock{
		SchemaFunc: func() *ast.Schema { return schema },
		ComplexityFunc: func(ctx context.Context, typeName, fieldName string, childComplexity int, args map[string]any) (int, bool) {
			return 0, false
		},
		ExecFunc: func(ctx context.Context) graphql.ResponseHandler {
			i := 0
			return func(ctx context.Context) *graphql.Response {
				if i >= len(p.Delays) {
					return nil
				}
				spin(p.Delays[i])
				hn := i+1 < len(p.Delays)
				data := fmt.Sprintf(`{"n":%d}`, i)
				if p.Text {
					data = fmt.Sprintf(`{"n":%d,"t":"line\nbreak \"q\" \r\n--graphql--   é"}`, i)
				}
				r := &graphql.Response{Data: json.RawMessage(data)}
				if p.Kind == "multipart" {
					r.HasNext = &hn
				}
				i++
				return r
			}
		},
	}
	srv := handler.New(es)
	srv.AddTransport(transport.SSE{KeepAlivePingInterval: time.Duration(p.KeepAlive) * time.Microsecond})
	srv.AddTransport(transport.MultipartMixed{Boundary: "graphql", DeliveryTimeout: time.Duration(p.Flush) * time.Microsecond})
	srv.AddTransport(transport.POST{})
	srv.SetRecoverFunc(func(ctx context.Context, err any) error {
		atomic.AddInt64(&recovered, 1)
		return fmt.Errorf("P:%v", err)
	})
	return httptest.NewServer(http.HandlerFunc(func(w http.ResponseWriter, r *http.Request) {
		srv.ServeHTTP(w, r)
		spin(p.Linger) // a middleware that does something after the GraphQL handler returned
	}))
}

func queryOf(p plan) string {
	q := "{ a"
	for i := 0; i < p.ErrFields; i++ {
		q += fmt.Sprintf(" unknownField%d", i)
	}
	return q + " }"
}

// plainBody: the same request over the plain POST transport (the JSON of the single response)
func plainBody(ts *httptest.Server, p plan) ([]byte, error) {
	b, _ := json.Marshal(map[string]string{"query": queryOf(p)})
	req, _ := http.NewRequest("POST", ts.URL, bytes.NewReader(b))
	req.Header.Set("Content-Type", "application/json")
	req.Header.Set("Accept", "application/json")
	resp, err := ts.Client().Do(req)
	if err != nil {
		return nil, err
	}
	defer resp.Body.Close()
	return io.ReadAll(resp.Body)
}

func fetch(ts *httptest.Server, p plan) ([]byte, string, error) {
	qb, _ := json.Marshal(map[string]string{"query": queryOf(p)})
	req, _ := http.NewRequest("POST", ts.URL, bytes.NewReader(qb))
	req.Header.Set("Content-Type", "application/json")
	if p.Kind == "sse" {
		req.Header.Set("Accept", "text/event-stream")
	} else {
		req.Header.Set("Accept", "multipart/mixed")
	}
	resp, err := ts.Client().Do(req)
	if err != nil {
		return nil, "", err
	}
	defer resp.Body.Close()
	b, err := io.ReadAll(resp.Body)
	return b, resp.Header.Get("Content-Type"), err
}

// ---- multipart tokens -------------------------------------------------------------------------------------

type incJSON struct {
	Incremental []struct {
		Data    json.RawMessage `json:"data"`
		HasNext *bool           `json:"hasNext"`
	} `json:"incremental"`
	HasNext *bool           `json:"hasNext"`
	Data    json.RawMessage `json:"data"`
}

func payloadCoq(data json.RawMessage, hn *bool) (string, error) {
	var d struct {
		N *int `json:"n"`
	}
	if err := json.Unmarshal(data, &d); err != nil || d.N == nil {
		return "", fmt.Errorf("payload data %q is not one this operation produced", string(data))
	}
	return fmt.Sprintf("{| p_id := %d%%nat; p_hasnext := %s |}", *d.N, gen.Bool(hn != nil && *hn)), nil
}

// tokens splits a multipart body strictly into the tokens the model knows; anything else is an error.
func tokens(body []byte, boundary string) ([]string, error) {
	var toks []string
	closing := []byte("--" + boundary + "--\r\n")
	open := []byte("--" + boundary + "\r\n")
	header := []byte("Content-Type: application/json\r\n\r\n")
	crlf := []byte("\r\n")
	for len(body) > 0 {
		switch {
		case bytes.HasPrefix(body, closing):
			toks = append(toks, "TClosing")
			body = body[len(closing):]
		case bytes.HasPrefix(body, open):
			toks = append(toks, "TBoundary")
			body = body[len(open):]
		case bytes.HasPrefix(body, header):
			toks = append(toks, "THeader")
			body = body[len(header):]
		case bytes.HasPrefix(body, crlf):
			toks = append(toks, "TCRLF")
			body = body[len(crlf):]
		default:
			end := bytes.Index(body, crlf)
			if end < 0 {
				return toks, fmt.Errorf("trailing bytes %q", string(body))
			}
			raw := body[:end]
			body = body[end:]
			var j incJSON
			dec := json.NewDecoder(bytes.NewReader(raw))
			if err := dec.Decode(&j); err != nil {
				return toks, fmt.Errorf("a part body is not JSON: %q", string(raw))
			}
			if dec.More() {
				return toks, fmt.Errorf("a part body has trailing data: %q", string(raw))
			}
			if string(bytes.TrimSpace(raw)) == `{"hasNext":false}` {
				toks = append(toks, "TFinal") // the part that ends a stream left open
				continue
			}
			if j.Incremental != nil {
				var ps []string
				for _, inc := range j.Incremental {
					p, err := payloadCoq(inc.Data, inc.HasNext)
					if err != nil {
						return toks, err
					}
					ps = append(ps, p)
				}
				toks = append(toks, fmt.Sprintf("TIncremental %s %s", gen.List(ps), gen.Bool(j.HasNext != nil && *j.HasNext)))
			} else {
				p, err := payloadCoq(j.Data, j.HasNext)
				if err != nil {
					return toks, err
				}
				toks = append(toks, "TInitial "+p)
			}
		}
	}
	return toks, nil
}

// mimeParts parses the body with Go's own multipart reader (an independent reader of the same bytes).
func mimeParts(body []byte, contentType string) (int, error) {
	_, params, err := mime.ParseMediaType(contentType)
	if err != nil {
		return 0, err
	}
	mr := multipart.NewReader(bytes.NewReader(body), params["boundary"])
	n := 0
	for {
		part, err := mr.NextPart()
		if err == io.EOF {
			return n, nil
		}
		if err != nil {
			return n, err
		}
		b, err := io.ReadAll(part)
		if err != nil {
			return n, err
		}
		if !json.Valid(b) {
			return n, fmt.Errorf("part %d is not valid JSON: %q", n, string(b))
		}
		n++
	}
}

type caseDescr struct {
	Plan plan   `json:"plan"`
	Body string `json:"body"`
	Sig  string `json:"sig,omitempty"`
}

var errFieldChoices = []int{1, 8, 30}

func genPlan(r *gen.Rand, kind string) plan {
	p := plan{Kind: kind}
	n := 1 + r.Intn(12)
	if r.Chance(1, 6) {
		n = 1
	}
	gaps := []int{0, 0, 20, 60, 150, 400, 900, 1100, 2500}
	for i := 0; i < n; i++ {
		p.Delays = append(p.Delays, gen.Pick(r, gaps))
	}
	if kind == "sse" {
		p.KeepAlive = gen.Pick(r, []int{0, 5, 10, 40, 150, 600, 1000})
		if p.KeepAlive > 0 && p.KeepAlive < 40 {
			// very fast pings: keep the operation short, the stream is printed byte by byte
			for i := range p.Delays {
				if p.Delays[i] > 150 {
					p.Delays[i] = 150
				}
			}
		}
		p.Linger = gen.Pick(r, []int{0, 0, 100, 800})
		p.Text = r.Chance(1, 4)
		if r.Chance(1, 5) {
			// the operation cannot be created: one error event, the larger the longer its write takes
			p.ErrFields = gen.Pick(r, errFieldChoices)
			p.Delays = []int{0}
			if p.KeepAlive == 0 || r.Bool() {
				p.KeepAlive = gen.Pick(r, []int{1, 5, 10})
			}
		}
	} else {
		p.Flush = gen.Pick(r, []int{0, 1000, 1000, 2000, 4000})
		p.Linger = gen.Pick(r, []int{0, 0, 500})
		// aim the end of the operation at a flush tick
		if r.Chance(1, 2) {
			p.Delays[len(p.Delays)-1] = gen.Pick(r, []int{900, 950, 1000, 1050, 1100})
		}
	}
	return p
}

func Run(c *gen.Ctx) error {
	r := gen.NewRand(c.Seed)
	meta := &gen.Meta{Property: "C12", Distribution: map[string]any{}}
	nSSE, nMulti := 140, 140
	if c.Thorough() {
		nSSE, nMulti = 2500, 2500
		errFieldChoices = []int{1, 8, 30, 120}
	}
	var plans []plan
	plans = append(plans,
		plan{Kind: "sse", Delays: []int{0}}, plan{Kind: "sse", Delays: []int{0, 0, 0}, KeepAlive: 5},
		plan{Kind: "sse", Delays: []int{300, 300, 300}, KeepAlive: 10, Linger: 800},
		plan{Kind: "sse", Delays: []int{0, 100}, KeepAlive: 40, Text: true},
		plan{Kind: "sse", Delays: []int{0}, KeepAlive: 1, ErrFields: 40}, plan{Kind: "sse", Delays: []int{0}, KeepAlive: 1, ErrFields: 40, Linger: 800},
		plan{Kind: "sse", Delays: []int{0}, KeepAlive: 5, ErrFields: 40}, plan{Kind: "sse", Delays: []int{0}, ErrFields: 3},
		plan{Kind: "multipart", Delays: []int{0}}, plan{Kind: "multipart", Delays: []int{0, 0, 0, 0}},
		plan{Kind: "multipart", Delays: []int{0, 1500, 0, 1500, 1000}, Flush: 1000},
		plan{Kind: "multipart", Delays: []int{0, 2500}, Flush: 1000, Linger: 500})
	sr := r.Fork(1)
	for i := 0; i < nSSE; i++ {
		plans = append(plans, genPlan(sr, "sse"))
	}
	mr := r.Fork(2)
	for i := 0; i < nMulti; i++ {
		plans = append(plans, genPlan(mr, "multipart"))
	}
	plain := make([][]byte, len(plans))
	bodies := make([][]byte, len(plans))
	ctypes := make([]string, len(plans))
	errs := make([]error, len(plans))
	var wg sync.WaitGroup
	sem := make(chan struct{}, 6)
	for i := range plans {
		wg.Add(1)
		go func(i int) {
			defer wg.Done()
			sem <- struct{}{}
			defer func() { <-sem }()
			ts := newServer(plans[i])
			bodies[i], ctypes[i], errs[i] = fetch(ts, plans[i])
			if errs[i] == nil && plans[i].ErrFields > 0 {
				plain[i], errs[i] = plainBody(ts, plans[i])
			}
			ts.Close()
		}(i)
	}
	wg.Wait()
	cf := &gen.CaseFile{Dir: c.OutDir, Prop: "C12", Kind: "stream", Requires: []string{"Base.Prelude", "Model.Sse", "Model.Multipart", "Corr.Corr_C12"}, Type: "c12_case",
		Checks: []gen.Check{{Label: "corr", Fn: "c12_corr"}, {Label: "mon", Fn: "c12_mon"}, {Label: "monmodel", Fn: "c12_monmodel"}}, Shard: 150}
	if c.Thorough() {
		cf.Shard = 25 // bodies are printed byte by byte: keep each file small enough for Coq's parser
	}
	var descr []any
	counts := map[string]int{}
	pings, parts := 0, 0
	distinct := map[string]bool{}
	for i, p := range plans {
		d := caseDescr{Plan: p, Body: string(bodies[i])}
		if len(d.Body) > 1500 {
			d.Body = d.Body[:1500] + "..."
		}
		if errs[i] != nil {
			meta.Direct = append(meta.Direct, gen.DirectFinding{Signature: "stream-read-error", What: "reading the streamed response failed: " + errs[i].Error(), Replay: d})
			continue
		}
		b, _ := json.Marshal(p)
		distinct[string(b)] = true
		if p.Kind == "sse" {
			var ps []string
			if p.ErrFields > 0 {
				ps = append(ps, gen.Bytes(plain[i]))
				counts["sse_operation_error"]++
			}
			for k := range p.Delays {
				if p.ErrFields > 0 {
					break
				}
				data := fmt.Sprintf(`{"n":%d}`, k)
				if p.Text {
					data = fmt.Sprintf(`{"n":%d,"t":"line\nbreak \"q\" \r\n--graphql--   é"}`, k)
				}
				raw, _ := json.Marshal(&graphql.Response{Data: json.RawMessage(data)})
				ps = append(ps, gen.Bytes(raw))
			}
			cf.Add(fmt.Sprintf("KSse %s %s", gen.List(ps), gen.Bytes(bodies[i])))
			pings += bytes.Count(bodies[i], []byte(": ping"))
			counts["sse"]++
		} else {
			if !strings.HasPrefix(ctypes[i], "multipart/mixed") {
				meta.Direct = append(meta.Direct, gen.DirectFinding{Signature: "multipart-wrong-content-type", What: "Content-Type " + ctypes[i], Replay: d})
				continue
			}
			toks, err := tokens(bodies[i], "graphql")
			if err != nil {
				meta.Direct = append(meta.Direct, gen.DirectFinding{Signature: "multipart-body-not-tokenisable", What: "the multipart body is not a sequence of boundary lines, part headers, JSON bodies and CRLFs: " + err.Error(), Replay: d})
				continue
			}
			n, err := mimeParts(bodies[i], ctypes[i])
			if err != nil {
				meta.Direct = append(meta.Direct, gen.DirectFinding{Signature: "multipart-rejected-by-mime-reader", What: "mime/multipart cannot read the response: " + err.Error(), Replay: d})
				continue
			}
			parts += n
			var sent []string
			for k := range p.Delays {
				sent = append(sent, fmt.Sprintf("{| p_id := %d%%nat; p_hasnext := %s |}", k, gen.Bool(k+1 < len(p.Delays))))
			}
			cf.Add(fmt.Sprintf("KMulti %s %s", gen.List(sent), gen.List(toks)))
			counts["multipart"]++
		}
		descr = append(descr, d)
	}
	if n := atomic.LoadInt64(&recovered); n > 0 {
		meta.Direct = append(meta.Direct, gen.DirectFinding{Signature: "stream-handler-panicked", What: fmt.Sprintf("the recover hook ran %d time(s) while streaming responses whose resolvers never panic", n), Replay: nil})
	}
	if err := meta.AddCaseFile(cf, descr); err != nil {
		return err
	}
	meta.Distribution["cases"] = counts
	meta.Distribution["pings_observed"] = pings
	meta.Distribution["mime_parts_read"] = parts
	meta.Evaluations = cf.Len()
	meta.DistinctNontrivial = len(distinct)
	meta.Rule = "raw bytes read from a real httptest.Server connection. SSE: 1..12 payloads with spin-waited gaps {0,20,60,150,400,900,1100,2500} us, keep-alive {off,1,10,40,150,600,1000} us, the caller lingering {0,100,800} us after the transport returned (so that a late ping becomes bytes), requests whose operation cannot be created (1..40 unknown fields: one error event of up to ~6 kB, expected JSON taken from the plain POST transport) under keep-alive 1..10 us, payload text with escaped line breaks / quotes / unicode / a boundary look-alike; 4 pinned plans. multipart/mixed: the same payload timing, flush interval {default 1 ms, 1, 2, 4 ms}, the end of the operation aimed at a flush tick; 4 pinned plans; each body is split strictly into boundary / header / JSON / CRLF tokens (anything else is reported) and also read by mime/multipart. The recover hook must never run."
	if len(descr) > 6 {
		meta.Samples = append(meta.Samples, descr[2], descr[6])
	}
	concurrentStreams(c, gen.NewRand(c.Seed+17), meta)
	failingStreams(meta)
	deadlineStreams(c, meta)
	return meta.Write(c.OutDir)
}
