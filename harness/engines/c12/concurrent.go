package c12

import (
	"bytes"
	"context"
	"encoding/json"
	"fmt"
	"io"
	"net/http"
	"net/http/httptest"
	"strings"
	"sync"

	"github.com/vektah/gqlparser/v2/ast"

	"github.com/99designs/gqlgen/graphql"
	"github.com/99designs/gqlgen/graphql/handler"
	"github.com/99designs/gqlgen/graphql/handler/transport"

	"verifharness/gen"
)

// concurrentStreams: many clients at once, each asking for its own large payload over multipart/mixed, SSE or the
// plain POST transport.  Every body must be byte for byte the body the same request gets when it is sent alone
// (one payload, no keep-alive: the bytes of a response do not depend on timing).
func concurrentStreams(c *gen.Ctx, r *gen.Rand, meta *gen.Meta) int {
	es := &graphql.ExecutableSchemaMock{
		SchemaFunc: func() *ast.Schema { return schema },
		ComplexityFunc: func(ctx context.Context, typeName, fieldName string, childComplexity int, args map[string]any) (int, bool) {
			return 0, false
		},
		ExecFunc: func(ctx context.Context) graphql.ResponseHandler {
			oc := graphql.GetOperationContext(ctx)
			k, _ := oc.Variables["k"].(int64)
			size, _ := oc.Variables["size"].(int64)
			multipart := strings.Contains(oc.Headers.Get("Accept"), "multipart")
			done := false
			return func(ctx context.Context) *graphql.Response {
				if done {
					return nil
				}
				done = true
				pad := strings.Repeat(string(rune('a'+k%26)), int(size))
				resp := &graphql.Response{Data: json.RawMessage(fmt.Sprintf(`{"k":%d,"pad":"%s"}`, k, pad))}
				if multipart {
					f := false
					resp.HasNext = &f
				}
				return resp
			}
		},
	}
	srv := handler.New(es)
	srv.AddTransport(transport.SSE{})
	srv.AddTransport(transport.MultipartMixed{Boundary: "graphql"})
	srv.AddTransport(transport.POST{})
	ts := httptest.NewServer(srv)
	defer ts.Close()
	send := func(cl *http.Client, accept string, k, size int) ([]byte, error) {
		qb, _ := json.Marshal(map[string]any{"query": "query($k: Int, $size: Int) { a(k: $k, size: $size) }", "variables": map[string]int{"k": k, "size": size}})
		req, _ := http.NewRequest("POST", ts.URL, bytes.NewReader(qb))
		req.Header.Set("Content-Type", "application/json")
		req.Header.Set("Accept", accept)
		resp, err := cl.Do(req)
		if err != nil {
			return nil, err
		}
		defer resp.Body.Close()
		return io.ReadAll(resp.Body)
	}
	accepts := []string{"multipart/mixed", "text/event-stream", "application/json"}
	rounds, clients, each := 4, 32, 12
	if c.Thorough() {
		rounds = 60
	}
	// every client keeps its own connection and sends its requests back to back, so that the server is inside
	// several responses at any moment
	cls := make([]*http.Client, clients)
	for i := range cls {
		cls[i] = &http.Client{Transport: &http.Transport{MaxIdleConnsPerHost: 1}}
	}
	type job struct {
		accept  string
		k, size int
		want    []byte
	}
	sent, failures := 0, 0
	for round := 0; round < rounds; round++ {
		jobs := make([][]job, clients)
		for i := range jobs {
			for e := 0; e < each; e++ {
				jb := job{accept: accepts[(i+e+round)%3], k: (round*clients+i)*each + e, size: 9000 + r.Intn(50000)}
				w, err := send(cls[0], jb.accept, jb.k, jb.size)
				if err != nil || len(w) < jb.size {
					meta.Direct = append(meta.Direct, gen.DirectFinding{Signature: "harness", What: fmt.Sprintf("the reference request did not return its payload (%v, %d bytes): %.200s", err, len(w), w)})
					return sent
				}
				jb.want = w
				jobs[i] = append(jobs[i], jb)
			}
		}
		got := make([][][]byte, clients)
		start := make(chan struct{})
		var wg sync.WaitGroup
		for i := range jobs {
			wg.Add(1)
			go func(i int) {
				defer wg.Done()
				<-start
				for _, jb := range jobs[i] {
					b, _ := send(cls[i], jb.accept, jb.k, jb.size)
					got[i] = append(got[i], b)
				}
			}(i)
		}
		close(start)
		wg.Wait()
		for i := range jobs {
			for e, jb := range jobs[i] {
				sent++
				g := got[i][e]
				if !bytes.Equal(g, jb.want) {
					failures++
					if failures <= 3 {
						at := 0
						for at < len(g) && at < len(jb.want) && g[at] == jb.want[at] {
							at++
						}
						lo, hi := max(0, at-40), min(len(g), at+80)
						meta.Direct = append(meta.Direct, gen.DirectFinding{Signature: "response-bytes-differ-with-other-requests-in-flight",
							What: fmt.Sprintf("%d clients at once: the %s response for k=%d (payload of %d bytes) differs from the response the same request gets alone, from byte %d on (%d bytes instead of %d): ...%q...",
								clients, jb.accept, jb.k, jb.size, at, len(g), len(jb.want), g[lo:hi]),
							Replay: map[string]any{"clients": clients, "requests_per_client": each, "accept": jb.accept, "k": jb.k, "payload_bytes": jb.size, "first_difference_at": at}})
					}
				}
			}
		}
	}
	for _, cl := range cls {
		cl.CloseIdleConnections()
	}
	meta.Notes = append(meta.Notes, fmt.Sprintf("%d rounds of %d clients at once, each sending %d requests back to back on its own connection (multipart/mixed, SSE and POST in turn, each asking for its own payload of 9-59 kB): %d bodies compared byte for byte with the body the request gets alone; %d differed", rounds, clients, each, sent, failures))
	return sent
}
