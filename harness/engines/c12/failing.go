package c12

import (
	"bytes"
	"context"
	"encoding/json"
	"fmt"
	"io"
	"net/http"
	"net/http/httptest"
	"strings"
	"time"

	"github.com/vektah/gqlparser/v2/ast"

	"github.com/99designs/gqlgen/graphql"
	"github.com/99designs/gqlgen/graphql/handler"
	"github.com/99designs/gqlgen/graphql/handler/transport"

	"verifharness/gen"
)

// failingStreams: a stream whose response function fails (panics) after k payloads - with per-tick flushes, with
// everything aggregated into the last flush, and free running.  The stream must still be well-framed: every payload
// once and in order, the failure as a last payload, then (SSE) the complete event / (multipart) the closing boundary,
// exactly once, last; the final envelope must not promise more.
func failingStreams(meta *gen.Meta) int {
	n := 0
	for _, kind := range []string{"sse", "multipart"} {
		for k := 0; k <= 3; k++ {
			for _, timing := range []string{"free running", "a payload per flush tick", "all in the last flush"} {
				n++
				gap, flush := 0*time.Millisecond, time.Duration(0)
				switch timing {
				case "a payload per flush tick":
					gap, flush = 3*time.Millisecond, time.Millisecond
				case "all in the last flush":
					flush = 200 * time.Millisecond
				}
				es := &graphql.ExecutableSchemaMock{
					SchemaFunc: func() *ast.Schema { return schema },
					ComplexityFunc: func(ctx context.Context, typeName, fieldName string, childComplexity int, args map[string]any) (int, bool) {
						return 0, false
					},
					ExecFunc: func(ctx context.Context) graphql.ResponseHandler {
						i := 0
						return func(ctx context.Context) *graphql.Response {
							time.Sleep(gap)
							if i == k {
								panic("the response cannot be produced")
							}
							i++
							more := true
							return &graphql.Response{Data: json.RawMessage(fmt.Sprintf(`{"n":%d}`, i)), HasNext: &more}
						}
					},
				}
				srv := handler.New(es)
				srv.AddTransport(transport.SSE{})
				srv.AddTransport(transport.MultipartMixed{Boundary: "graphql", DeliveryTimeout: flush})
				srv.SetRecoverFunc(func(ctx context.Context, err any) error { return fmt.Errorf("internal system error") })
				ts := httptest.NewServer(srv)
				req, _ := http.NewRequest("POST", ts.URL, bytes.NewReader([]byte(`{"query":"{ a }"}`)))
				req.Header.Set("Content-Type", "application/json")
				req.Header.Set("Accept", map[string]string{"sse": "text/event-stream", "multipart": "multipart/mixed"}[kind])
				resp, err := (&http.Client{Timeout: 5 * time.Second}).Do(req)
				var body []byte
				ct := ""
				if err == nil {
					body, err = io.ReadAll(resp.Body)
					ct = resp.Header.Get("Content-Type")
					resp.Body.Close()
				}
				ts.Close()
				problem := ""
				switch {
				case err != nil:
					problem = "the client could not read the stream: " + err.Error()
				case kind == "sse":
					s := string(body)
					if !strings.HasSuffix(s, "event: complete\n\n") || strings.Count(s, "event: complete") != 1 {
						problem = "the stream does not end with exactly one complete event"
					} else if got := strings.Count(s, "event: next\ndata: "); got != k+1 {
						problem = fmt.Sprintf("%d next events for %d payloads and the failure", got, k)
					} else if !strings.Contains(s, "internal system error") {
						problem = "the failure is not in the stream"
					}
					for i := 1; i <= k && problem == ""; i++ {
						if strings.Count(s, fmt.Sprintf(`{"n":%d}`, i)) != 1 {
							problem = fmt.Sprintf("payload %d appears %d times", i, strings.Count(s, fmt.Sprintf(`{"n":%d}`, i)))
						}
					}
				default:
					closing := "--graphql--\r\n"
					if _, perr := mimeParts(body, ct); perr != nil {
						problem = "mime/multipart cannot read the parts: " + perr.Error()
					} else if bytes.Count(body, []byte("--graphql--")) != 1 || !bytes.HasSuffix(body, []byte(closing)) {
						problem = fmt.Sprintf("the closing boundary appears %d times (and must be last)", bytes.Count(body, []byte("--graphql--")))
					} else if !bytes.Contains(body, []byte("internal system error")) {
						problem = "the failure is not in the stream"
					}
					if problem == "" {
						// the last envelope must not promise more
						parts := bytes.Split(body, []byte("\r\n--graphql"))
						last := parts[len(parts)-2]
						if bytes.Contains(last, []byte(`"hasNext":true}`)) && bytes.HasSuffix(bytes.TrimSpace(last), []byte(`"hasNext":true}`)) {
							problem = "the last part says hasNext: true"
						}
					}
					for i := 1; i <= k && problem == ""; i++ {
						if c := bytes.Count(body, []byte(fmt.Sprintf(`{"n":%d}`, i))); c != 1 {
							problem = fmt.Sprintf("payload %d appears %d times", i, c)
						}
					}
				}
				if problem != "" {
					meta.Direct = append(meta.Direct, gen.DirectFinding{Signature: "failing-stream-not-well-framed:" + kind,
						What:   fmt.Sprintf("%s, the response function fails after %d payloads (%s): %s; received %q", kind, k, timing, problem, body),
						Replay: map[string]any{"transport": kind, "payloads_before_the_failure": k, "timing": timing, "body": string(body)}})
				}
			}
		}
	}
	meta.Notes = append(meta.Notes, fmt.Sprintf("%d streams whose response function fails after 0..3 payloads (SSE and multipart/mixed; free running, a payload per flush tick, all in the last flush): every payload once, the failure last, then exactly one complete event / closing boundary", n))
	return n
}
