// Package c15 drives the real AutomaticPersistedQuery extension through handler.Server+POST over request
// histories and prints them with the observed outcomes for Corr_C15.
package c15

import (
	"context"
	"crypto/sha256"
	"encoding/hex"
	"encoding/json"
	"fmt"
	"net/http"
	"net/http/httptest"
	"strings"

	"github.com/vektah/gqlparser/v2"
	"github.com/vektah/gqlparser/v2/ast"
	"github.com/vektah/gqlparser/v2/gqlerror"

	"github.com/99designs/gqlgen/graphql"
	"github.com/99designs/gqlgen/graphql/handler"
	"github.com/99designs/gqlgen/graphql/handler/extension"
	"github.com/99designs/gqlgen/graphql/handler/lru"
	"github.com/99designs/gqlgen/graphql/handler/transport"
	"github.com/vektah/gqlparser/v2/formatter"
	"github.com/vektah/gqlparser/v2/parser"

	"verifharness/gen"
)

var texts = []string{"{ a }", "{ b }", "query Q { a b }"}

// two texts that differ only in white space that IS significant (inside a string value)
var twinTexts = []string{`{ echo(s: "a b") }`, `{ echo(s: "a  b") }`}

func allTexts() []string { return append(append([]string{}, texts...), twinTexts...) }

// texts[0] padded with white space: a line feed is white space for Go and for GraphQL, form feed and U+00A0 only for Go.
// Each is a different text from texts[0] and hashes differently.
var padTexts = []string{"\n{ a }\n", "\f{ a }", "{ a }\u00a0"}

// enc names a text for the Coq side (its string literals hold printable ASCII only); injective on the texts used.
func enc(s string) string {
	return strings.NewReplacer("\n", "<LF>", "\f", "<FF>", "\u00a0", "<NBSP>").Replace(s)
}

func hashedTexts() []string { return append(allTexts(), padTexts...) }

// docText renders a parsed document canonically (insignificant white space normalised, string values kept)
func docText(d *ast.QueryDocument) string {
	var sb strings.Builder
	formatter.NewFormatter(&sb).FormatQueryDocument(d)
	return sb.String()
}

func sha(q string) string { b := sha256.Sum256([]byte(q)); return hex.EncodeToString(b[:]) }

// req is the abstract request; Variant selects the concrete JSON rendering of malformed / none forms.
type req struct {
	Text    string `json:"text"`
	Ext     string `json:"ext"` // none | malformed | ok
	Sha     string `json:"sha,omitempty"`
	Version int    `json:"version,omitempty"`
	Variant int    `json:"variant,omitempty"`
	// the body is well-formed JSON with a member of the wrong type ("variables":"oops"): the transport refuses it
	// before any extension sees it - such a request is sent in between and is no part of the model's history
	Undecodable bool `json:"undecodable,omitempty"`
}

func (r req) body() string {
	m := map[string]any{}
	if r.Undecodable {
		m["variables"] = "oops"
	}
	if r.Text != "" {
		m["query"] = r.Text
	}
	switch r.Ext {
	case "none":
		switch r.Variant % 3 {
		case 1:
			m["extensions"] = map[string]any{}
		case 2:
			m["extensions"] = map[string]any{"persistedQuery": nil}
		}
	case "malformed":
		var v any
		switch r.Variant % 5 {
		case 0:
			v = "abc"
		case 1:
			v = 17
		case 2:
			v = []any{1, 2}
		case 3:
			v = map[string]any{"sha256Hash": []any{}, "version": 1}
		default:
			v = map[string]any{"sha256Hash": r.Sha, "version": "1"}
		}
		m["extensions"] = map[string]any{"persistedQuery": v}
	case "ok":
		pq := map[string]any{"sha256Hash": r.Sha}
		if !(r.Version == 0 && r.Variant%2 == 1) { // version 0 is also rendered as "absent"
			pq["version"] = r.Version
		}
		m["extensions"] = map[string]any{"persistedQuery": pq}
	}
	b, _ := json.Marshal(m)
	return string(b)
}

func (r req) coq() string {
	ext := "ExtNone"
	switch r.Ext {
	case "malformed":
		ext = "ExtMalformed"
	case "ok":
		ext = fmt.Sprintf("(ExtOk %s %s)", gen.Str(r.Sha), gen.Z(int64(r.Version)))
	}
	return fmt.Sprintf("{| q_text := %s; q_ext := %s |}", gen.Str(enc(r.Text)), ext)
}

type obs struct {
	Exec string `json:"exec,omitempty"`
	Err  string `json:"err,omitempty"`
}

func (o obs) coq() string {
	if o.Err != "" {
		return "ObsErr " + gen.Str(o.Err)
	}
	return "ObsExec " + gen.Str(enc(o.Exec))
}

type probeKV struct {
	Key string  `json:"key"`
	Val *string `json:"val"`
}

type apqCase struct {
	Cap   int       `json:"cap"` // 0 = map cache
	Reqs  []req     `json:"reqs"`
	Obs   []obs     `json:"observed"`
	Probe []probeKV `json:"probe"`
}

func classify(msg string) string {
	switch {
	case strings.Contains(msg, "PersistedQueryNotFound"):
		return "notfound"
	case strings.Contains(msg, "provided APQ hash does not match query"):
		return "mismatch"
	case strings.Contains(msg, "unsupported APQ version"):
		return "version"
	case strings.Contains(msg, "invalid APQ extension data"):
		return "malformed"
	}
	return "other"
}

var schema = gqlparser.MustLoadSchema(&ast.Source{Name: "c15.graphql", Input: `type Query { a: Int b: Int echo(s: String): Int }`})

func runHistory(capacity int, reqs []req, probeKeys []string) ([]obs, []probeKV) {
	var cache graphql.Cache[string]
	if capacity == 0 {
		cache = graphql.MapCache[string]{}
	} else {
		cache = lru.New[string](capacity)
	}
	var executed *string
	es := &graphql.ExecutableSchemaMock{
		SchemaFunc:     func() *ast.Schema { return schema },
		ComplexityFunc: func(ctx context.Context, t, f string, c int, a map[string]any) (int, bool) { return 0, false },
		ExecFunc: func(ctx context.Context) graphql.ResponseHandler {
			oc := graphql.GetOperationContext(ctx)
			q := oc.RawQuery
			// what is executed is the document, not the raw text: name the text the executed document belongs to
			if raw, err := parser.ParseQuery(&ast.Source{Input: oc.RawQuery}); err == nil && oc.Doc != nil && docText(raw) != docText(oc.Doc) {
				q = "DOCUMENT OF ANOTHER TEXT: " + docText(oc.Doc)
				for _, t := range allTexts() {
					if d, err := parser.ParseQuery(&ast.Source{Input: t}); err == nil && docText(d) == docText(oc.Doc) {
						q = t
					}
				}
			}
			executed = &q
			return graphql.OneShot(&graphql.Response{Data: []byte(`{}`)})
		},
	}
	srv := handler.New(es)
	srv.AddTransport(transport.POST{})
	srv.SetQueryCache(lru.New[*ast.QueryDocument](64)) // as handler.NewDefaultServer does
	// other extensions with an operation-parameter hook stand beside it on a third of the servers each way round: what
	// the persisted-query extension decides must not depend on who else looks at the parameters
	switch (len(reqs) + capacity) % 3 {
	case 1:
		srv.Use(extension.AutomaticPersistedQuery{Cache: cache})
		srv.Use(bystander{})
	case 2:
		srv.Use(bystander{})
		srv.Use(extension.AutomaticPersistedQuery{Cache: cache})
	default:
		srv.Use(extension.AutomaticPersistedQuery{Cache: cache})
	}
	var out []obs
	for _, r := range reqs {
		executed = nil
		hr := httptest.NewRequest(http.MethodPost, "/query", strings.NewReader(r.body()))
		hr.Header.Set("Content-Type", "application/json")
		w := httptest.NewRecorder()
		srv.ServeHTTP(w, hr)
		var resp struct {
			Errors []struct{ Message string } `json:"errors"`
		}
		_ = json.Unmarshal(w.Body.Bytes(), &resp)
		switch {
		case executed != nil:
			out = append(out, obs{Exec: *executed})
		case len(resp.Errors) > 0:
			out = append(out, obs{Err: classify(resp.Errors[0].Message)})
		default:
			out = append(out, obs{Err: "silent"})
		}
	}
	var probe []probeKV
	for _, k := range probeKeys {
		v, ok := cache.Get(context.Background(), k)
		if ok {
			vv := v
			probe = append(probe, probeKV{k, &vv})
		} else {
			probe = append(probe, probeKV{k, nil})
		}
	}
	return out, probe
}

func alphabet() []req {
	var a []req
	for i := range texts {
		a = append(a, req{Text: texts[i], Ext: "none"})
	}
	for i := range texts {
		a = append(a, req{Text: texts[i], Ext: "ok", Sha: sha(texts[i]), Version: 1})
	}
	for i := range texts {
		a = append(a, req{Text: texts[i], Ext: "ok", Sha: sha(texts[(i+1)%3]), Version: 1}) // someone else's hash
	}
	a = append(a, req{Text: texts[0], Ext: "ok", Sha: "deadbeef", Version: 1})
	for i := range texts {
		a = append(a, req{Ext: "ok", Sha: sha(texts[i]), Version: 1})
	}
	a = append(a, req{Ext: "ok", Sha: "deadbeef", Version: 1})
	a = append(a, req{Text: texts[1], Ext: "malformed", Sha: sha(texts[1])})
	a = append(a, req{Text: texts[0], Ext: "ok", Sha: sha(texts[0]), Version: 2})
	a = append(a, req{Ext: "ok", Sha: sha(texts[0]), Version: 0})
	a = append(a, req{Ext: "none"})
	a = append(a, req{Text: texts[2], Ext: "none", Variant: 2})
	return a
}

func Run(c *gen.Ctx) error {
	r := gen.NewRand(c.Seed)
	meta := &gen.Meta{Property: "C15"}
	cf := &gen.CaseFile{Dir: c.OutDir, Prop: "C15", Kind: "hist", Requires: []string{"Base.Prelude", "Model.Apq", "Corr.Corr_C15"},
		Type: "apq_case", Checks: []gen.Check{{"corr", "apq_corr"}, {"mon", "apq_monitor"}, {"monmodel", "apq_monitor_on_model"}}, Shard: 400}
	var hashTbl []string
	probeKeys := []string{"deadbeef"}
	for _, t := range hashedTexts() {
		hashTbl = append(hashTbl, fmt.Sprintf("(%s, %s)", gen.Str(enc(t)), gen.Str(sha(t))))
		probeKeys = append(probeKeys, sha(t))
	}
	var descr []any
	kinds := map[string]int{}
	outcomes := map[string]int{}
	lens := map[int]int{}
	distinct := map[string]bool{}
	add := func(capacity int, reqs []req) {
		for i := range reqs {
			reqs[i].Variant = (reqs[i].Variant + i) // vary concrete renderings along the history
		}
		o, p := runHistory(capacity, reqs, probeKeys)
		var rq, ob, pr []string
		all, allObs := reqs, o
		reqs, o = nil, nil
		for i := range all {
			if all[i].Undecodable {
				if allObs[i].Exec != "" || allObs[i].Err != "other" {
					meta.Direct = append(meta.Direct, gen.DirectFinding{Signature: "undecodable-request-reached-the-pipeline",
						What: fmt.Sprintf("a POST body with a member of the wrong JSON type was answered %+v instead of being refused by the transport", allObs[i]), Replay: apqCase{Cap: capacity, Reqs: all, Obs: allObs}})
				}
				continue
			}
			reqs, o = append(reqs, all[i]), append(o, allObs[i])
		}
		for i := range reqs {
			rq = append(rq, reqs[i].coq())
			kinds[reqs[i].Ext+map[bool]string{true: "+text", false: ""}[reqs[i].Text != ""]]++
		}
		nontrivial := false
		for _, x := range o {
			ob = append(ob, x.coq())
			if x.Err != "" {
				outcomes[x.Err]++
			} else {
				outcomes["exec"]++
			}
		}
		for i, x := range reqs {
			if x.Ext == "ok" && x.Text == "" && o[i].Exec != "" {
				nontrivial = true // a hash-only request that resolved
			}
		}
		for _, kv := range p {
			v := "None"
			if kv.Val != nil {
				v = "(Some " + gen.Str(enc(*kv.Val)) + ")"
			}
			pr = append(pr, fmt.Sprintf("(%s, %s)", gen.Str(kv.Key), v))
		}
		capTerm := "None"
		if capacity > 0 {
			capTerm = fmt.Sprintf("(Some %s)", gen.Nat(capacity))
		}
		cf.Add(fmt.Sprintf("{| ac_cap := %s; ac_hash := %s; ac_reqs := %s; ac_obs := %s; ac_probe := %s |}",
			capTerm, gen.List(hashTbl), gen.List(rq), gen.List(ob), gen.List(pr)))
		descr = append(descr, apqCase{Cap: capacity, Reqs: all, Obs: allObs, Probe: p})
		lens[len(reqs)]++
		if nontrivial {
			b, _ := json.Marshal(reqs)
			distinct[fmt.Sprint(capacity)+string(b)] = true
		}
	}
	al := alphabet()
	// exhaustive: all histories up to length 2 over the full alphabet (map cache and LRU 1)
	for _, capacity := range []int{0, 1} {
		for i := range al {
			add(capacity, []req{al[i]})
			for j := range al {
				add(capacity, []req{al[i], al[j]})
			}
		}
	}
	// exhaustive length 3 (quick) / 4 (thorough) over a core alphabet
	core := []req{al[3], al[4], al[6], al[10], al[11], al[0], al[14], al[15], al[13]}
	var rec func(capacity int, pre []req, n int)
	rec = func(capacity int, pre []req, n int) {
		if n == 0 {
			add(capacity, append([]req(nil), pre...))
			return
		}
		for _, x := range core {
			rec(capacity, append(pre, x), n-1)
		}
	}
	rec(1, nil, 3)
	if c.Thorough() {
		rec(0, nil, 3)
		rec(1, nil, 4)
		rec(2, nil, 4)
	}
	// texts differing only in significant white space, with the parsed-document cache in play: every history up to
	// length 3 over {text only, text + own hash, hash only} x the two texts
	var twin []req
	for _, t := range twinTexts {
		twin = append(twin, req{Text: t, Ext: "none"}, req{Text: t, Ext: "ok", Sha: sha(t), Version: 1}, req{Ext: "ok", Sha: sha(t), Version: 1})
	}
	var rec2 func(pre []req, n int)
	rec2 = func(pre []req, n int) {
		if len(pre) > 0 {
			add(0, append([]req(nil), pre...))
		}
		if n == 0 {
			return
		}
		for _, x := range twin {
			rec2(append(pre, x), n-1)
		}
	}
	rec2(nil, 3)
	// padded texts sent with the hash of the unpadded text (a mismatch: the hash is of the text as sent), every
	// history up to length 3 together with honest registrations and hash-only requests
	twin = nil
	for _, t := range padTexts {
		twin = append(twin, req{Text: t, Ext: "ok", Sha: sha(texts[0]), Version: 1})
	}
	twin = append(twin, req{Text: padTexts[0], Ext: "ok", Sha: sha(padTexts[0]), Version: 1}, req{Text: texts[0], Ext: "ok", Sha: sha(texts[0]), Version: 1},
		req{Ext: "ok", Sha: sha(texts[0]), Version: 1}, req{Ext: "ok", Sha: sha(padTexts[0]), Version: 1})
	rec2(nil, 3)
	// requests the transport refuses (well-formed JSON, a member of the wrong type) in between: whatever text or
	// extension they carry must leave no trace - every history up to length 3 over refused bodies carrying a text /
	// a text with its hash, honest registrations, hash-only and text-only requests
	twin = []req{
		{Text: texts[1], Ext: "none", Undecodable: true},
		{Text: texts[1], Ext: "ok", Sha: sha(texts[1]), Version: 1, Undecodable: true},
		{Ext: "ok", Sha: sha(texts[0]), Version: 1, Undecodable: true},
		{Text: texts[0], Ext: "ok", Sha: sha(texts[0]), Version: 1},
		{Ext: "ok", Sha: sha(texts[0]), Version: 1},
		{Ext: "ok", Sha: sha(texts[1]), Version: 1},
		{Text: texts[2], Ext: "none"},
	}
	rec2(nil, 3)
	exhaustive := cf.Len()
	// random long histories with eviction
	nrand := 300
	if c.Thorough() {
		nrand = 5000
	}
	for i := 0; i < nrand; i++ {
		n := 4 + r.Intn(9)
		var h []req
		for j := 0; j < n; j++ {
			x := gen.Pick(r, al)
			x.Variant = r.Intn(10)
			h = append(h, x)
		}
		add(r.Intn(4), h)
	}
	if err := meta.AddCaseFile(cf, descr); err != nil {
		return err
	}
	meta.Evaluations = cf.Len()
	meta.DistinctNontrivial = len(distinct)
	meta.Rule = "request histories against handler.Server+POST+AutomaticPersistedQuery: exhaustive up to length 2 over a 19-form alphabet (3 texts x {text only, text+own hash, text+another text's hash, text+garbage hash, hash only, garbage hash only, malformed extension, wrong version, no query}) with MapCache and LRU(1); exhaustive length 3 over a 9-form core alphabet; random histories of length 4..12 with MapCache/LRU(1..3); every history up to length 3 over two texts that differ only in white space inside a string value x {text only, text + own hash, hash only}; every history up to length 3 over three white-space-padded forms of a text sent with the hash of the unpadded text, honest registrations and hash-only requests; every history up to length 3 with requests the transport refuses (well-formed JSON bodies with a member of the wrong type, carrying texts and extensions) in between, which must leave no trace. The server has a parsed-document cache (as NewDefaultServer installs); what is observed as executed is the executed DOCUMENT, mapped back to the text it is the parse of. Non-trivial = a history in which some hash-only request resolved to a text; distinct by (cache, request list)."
	meta.Samples = []any{descr[exhaustive-1], descr[len(descr)-1]}
	meta.Distribution = map[string]any{"exhaustive_cases": exhaustive, "random_cases": nrand, "request_forms": kinds, "observed_outcomes": outcomes, "history_lengths": lens}
	concurrentClients(c, gen.NewRand(c.Seed+23), meta)
	return meta.Write(c.OutDir)
}

// bystander: an extension that looks at the operation parameters of every request and refuses none.
type bystander struct{}

func (bystander) ExtensionName() string                          { return "Bystander" }
func (bystander) Validate(schema graphql.ExecutableSchema) error { return nil }
func (bystander) MutateOperationParameters(ctx context.Context, p *graphql.RawParams) *gqlerror.Error {
	return nil
}
