package c15

import (
	"context"
	"encoding/json"
	"fmt"
	"net/http"
	"net/http/httptest"
	"strings"
	"sync"

	"github.com/vektah/gqlparser/v2/ast"

	"github.com/99designs/gqlgen/graphql"
	"github.com/99designs/gqlgen/graphql/handler"
	"github.com/99designs/gqlgen/graphql/handler/extension"
	"github.com/99designs/gqlgen/graphql/handler/lru"
	"github.com/99designs/gqlgen/graphql/handler/transport"

	"verifharness/gen"
)

// concurrentClients: clients register, look up and mis-register hashes at the same time against the LRU cache (every
// request performs one atomic cache operation, so every concurrent execution is some sequential history of the
// model).  Whatever the interleaving: a hash-only request executes a text with exactly that hash or is
// PersistedQueryNotFound, a text sent with another text's hash executes nothing, and afterwards every cache entry's
// text hashes to its key.
func concurrentClients(c *gen.Ctx, r *gen.Rand, meta *gen.Meta) int {
	rounds := 60
	if c.Thorough() {
		rounds = 1500
	}
	sent, bad := 0, 0
	for round := 0; round < rounds; round++ {
		cache := lru.New[string](1 + r.Intn(3))
		var mu sync.Mutex
		executed := map[int]string{}
		es := &graphql.ExecutableSchemaMock{
			SchemaFunc:     func() *ast.Schema { return schema },
			ComplexityFunc: func(ctx context.Context, t, f string, c int, a map[string]any) (int, bool) { return 0, false },
			ExecFunc: func(ctx context.Context) graphql.ResponseHandler {
				if k, ok := ctx.Value(ctxKey("req")).(int); ok {
					mu.Lock()
					executed[k] = graphql.GetOperationContext(ctx).RawQuery
					mu.Unlock()
				}
				return graphql.OneShot(&graphql.Response{Data: []byte(`{}`)})
			},
		}
		srv := handler.New(es)
		srv.AddTransport(transport.POST{})
		srv.Use(extension.AutomaticPersistedQuery{Cache: cache})
		n := 6 + r.Intn(10)
		reqs := make([]req, n)
		for i := range reqs {
			t := gen.Pick(r, texts)
			switch r.Intn(4) {
			case 0:
				reqs[i] = req{Text: t, Ext: "ok", Sha: sha(t), Version: 1}
			case 1, 2:
				reqs[i] = req{Ext: "ok", Sha: sha(t), Version: 1}
			default:
				reqs[i] = req{Text: t, Ext: "ok", Sha: sha(gen.Pick(r, texts)), Version: 1}
			}
		}
		classes := make([]string, n)
		start := make(chan struct{})
		var wg sync.WaitGroup
		for i := range reqs {
			wg.Add(1)
			go func(i int) {
				defer wg.Done()
				hr := httptest.NewRequest(http.MethodPost, "/query", strings.NewReader(reqs[i].body()))
				hr.Header.Set("Content-Type", "application/json")
				hr = hr.WithContext(context.WithValue(hr.Context(), ctxKey("req"), i))
				w := httptest.NewRecorder()
				<-start
				srv.ServeHTTP(w, hr)
				var resp struct {
					Errors []struct{ Message string } `json:"errors"`
				}
				_ = json.Unmarshal(w.Body.Bytes(), &resp)
				if len(resp.Errors) > 0 {
					classes[i] = classify(resp.Errors[0].Message)
				}
			}(i)
		}
		close(start)
		wg.Wait()
		report := func(what string, i int) {
			bad++
			if bad <= 3 {
				meta.Direct = append(meta.Direct, gen.DirectFinding{Signature: "apq-broken-under-concurrent-clients",
					What: fmt.Sprintf("%d clients at once (round %d): request %d %s", n, round, i, what), Replay: map[string]any{"requests": reqs, "request": i}})
			}
		}
		for i, q := range reqs {
			sent++
			ex, ran := executed[i]
			switch {
			case q.Text == "": // hash only
				if ran && sha(ex) != q.Sha {
					report(fmt.Sprintf("(hash only, %s) executed %q, whose hash is %s", q.Sha[:8], ex, sha(ex)[:8]), i)
				}
				if !ran && classes[i] != "notfound" {
					report(fmt.Sprintf("(hash only) neither executed nor PersistedQueryNotFound: %q", classes[i]), i)
				}
			case sha(q.Text) != q.Sha: // somebody else's hash
				if ran || classes[i] != "mismatch" {
					report(fmt.Sprintf("(text %q with the hash of another text) executed=%v, answer class %q", q.Text, ran, classes[i]), i)
				}
			default:
				if !ran || ex != q.Text {
					report(fmt.Sprintf("(text %q with its own hash) executed %q (ran=%v)", q.Text, ex, ran), i)
				}
			}
		}
		for _, t := range texts {
			if v, ok := cache.Get(context.Background(), sha(t)); ok && sha(v) != sha(t) {
				report(fmt.Sprintf("left the cache entry %s -> %q", sha(t)[:8], v), -1)
			}
		}
	}
	meta.Notes = append(meta.Notes, fmt.Sprintf("%d rounds of 6..15 clients at once against LRU(1..3) (register / hash only / text with another text's hash): %d requests judged one by one by the cache invariant; %d violations", rounds, sent, bad))
	return sent
}

type ctxKey string
