// Package c08 calls gqlgen's marshalers and unmarshalers directly and records their outputs for
// Corr_C08 (serialisation) — it also produces the scalar cases that C02 reuses.
package c08

import (
	"bytes"
	"context"
	"encoding/json"
	"fmt"
	"math"
	"reflect"
	"strings"
	"time"
	_ "time/tzdata" // named locations without depending on the host's zoneinfo
	"unicode/utf8"

	"github.com/google/uuid"
	"github.com/vektah/gqlparser/v2/ast"

	"github.com/99designs/gqlgen/graphql"

	"verifharness/gen"
)

func m2b(m graphql.Marshaler) []byte {
	var b bytes.Buffer
	m.MarshalGQL(&b)
	return b.Bytes()
}

// decode mimics gqlgen's own JSON decoding of inputs (UseNumber).
func decode(b []byte) (any, error) {
	d := json.NewDecoder(bytes.NewReader(b))
	d.UseNumber()
	var v any
	err := d.Decode(&v)
	return v, err
}

type strCase struct {
	Kind string `json:"kind"`
	In   []byte `json:"in"`
	Out  []byte `json:"out"`
	Sig  string `json:"sig,omitempty"`
}

type intCase struct {
	Kind string `json:"kind"`
	Tag  int    `json:"tag"`
	Val  string `json:"val"`
	Out  string `json:"out"`
	Back string `json:"back"`
}

type unmCase struct {
	Kind string `json:"kind"`
	Fn   int    `json:"fn"`
	In   string `json:"in"`
	Obs  string `json:"observed"`
	Sig  string `json:"sig,omitempty"`
}

var fnNames = []string{"Int", "Int32", "Int64", "Uint", "Uint32", "Uint64", "IntID", "UintID"}

// oz renders (value, err) as the Coq observation.
func oz(v any, err error) (coq string, js string) {
	if err != nil {
		return "OErr", "err:" + err.Error()
	}
	var s string
	switch x := v.(type) {
	case int:
		s = fmt.Sprint(x)
	case int32:
		s = fmt.Sprint(x)
	case int64:
		s = fmt.Sprint(x)
	case uint:
		s = fmt.Sprint(x)
	case uint32:
		s = fmt.Sprint(x)
	case uint64:
		s = fmt.Sprint(x)
	}
	if strings.HasPrefix(s, "-") {
		return "(OOk (" + s + "))", s
	}
	return "(OOk " + s + ")", s
}

func callUnmarshal(fn int, v any) (any, error) {
	switch fn {
	case 0:
		return wrap(graphql.UnmarshalInt(v))
	case 1:
		return wrap(graphql.UnmarshalInt32(v))
	case 2:
		return wrap(graphql.UnmarshalInt64(v))
	case 3:
		return wrap(graphql.UnmarshalUint(v))
	case 4:
		return wrap(graphql.UnmarshalUint32(v))
	case 5:
		return wrap(graphql.UnmarshalUint64(v))
	case 6:
		return wrap(graphql.UnmarshalIntID(v))
	default:
		return wrap(graphql.UnmarshalUintID(v))
	}
}

func wrap[T any](v T, err error) (any, error) { return v, err }

type goval struct {
	coq string
	js  string
	val any
	neg bool // a negative typed integer
}

func gv(kind string, val any) goval {
	switch kind {
	case "GString":
		return goval{"(GString " + gen.Bytes([]byte(val.(string))) + ")", fmt.Sprintf("string(%q)", val), val, false}
	case "GNumber":
		return goval{"(GNumber " + gen.Bytes([]byte(val.(string))) + ")", fmt.Sprintf("json.Number(%q)", val), json.Number(val.(string)), false}
	}
	panic(kind)
}

func gint(kind string, z int64) goval {
	var v any
	switch kind {
	case "GInt":
		v = int(z)
	case "GInt64":
		v = z
	case "GInt32":
		v = int32(z)
	}
	return goval{fmt.Sprintf("(%s %s)", kind, gen.Z(z)), fmt.Sprintf("%s(%d)", kind, z), v, z < 0}
}

func guint(kind string, z uint64) goval {
	var v any = z
	if kind == "GUint32" {
		v = uint32(z)
	}
	return goval{fmt.Sprintf("(%s %d)", kind, z), fmt.Sprintf("%s(%d)", kind, z), v, false}
}

func Run(c *gen.Ctx) error {
	r := gen.NewRand(c.Seed)
	meta := &gen.Meta{Property: "C08"}
	req := []string{"Base.Prelude", "Base.Utf8", "Base.Json", "Model.Scalars", "Corr.Corr_C08"}

	// ---- strings ---------------------------------------------------------------------------------
	str := &gen.CaseFile{Dir: c.OutDir, Prop: "C08", Kind: "str", Requires: req, Type: "str_case",
		Checks: []gen.Check{{"corr", "str_corr"}, {"mon", "str_monitor"}, {"monmodel", "str_monitor_model"}}, Shard: 500}
	var strDescr []any
	strClasses := map[string]int{}
	distinct := map[string]bool{}
	addStr := func(class string, in []byte, id bool) {
		var out []byte
		if id {
			out = m2b(graphql.MarshalID(string(in)))
		} else {
			out = m2b(graphql.MarshalString(string(in)))
		}
		sig := ""
		if !utf8.Valid(in) {
			sig = "string-invalid-utf8-byte-copied-verbatim"
		}
		str.Add(fmt.Sprintf("(%s, %s)", gen.Bytes(in), gen.Bytes(out)))
		strDescr = append(strDescr, strCase{"str", in, out, sig})
		strClasses[class]++
		if len(in) > 0 {
			distinct[string(in)] = true
		}
	}
	// every control character, quote, backslash, DEL; boundary code points; specials
	for b := 0; b < 0x80; b++ {
		if b < 0x21 || b == '"' || b == '\\' || b == '/' || b == 0x7f {
			addStr("ascii-special", []byte{'a', byte(b), 'b'}, false)
		}
	}
	for _, cp := range []rune{0x80, 0x7ff, 0x800, 0xfff, 0x1000, 0xd7ff, 0xe000, 0xfffd, 0xffff, 0x10000, 0x10ffff, 0x2028, 0x2029, 0xfeff, 0x1f600, 'é', '日'} {
		addStr("boundary-codepoint", []byte("x"+string(cp)+"y"), cp%2 == 0)
	}
	malformed := [][]byte{{0xff}, {0xfe}, {0x80}, {0xbf}, {0xc0, 0x80}, {0xc1, 0xbf}, {0xc2}, {0xe0, 0x80, 0x80}, {0xe0, 0x9f, 0xbf}, {0xe0, 0xa0}, {0xed, 0xa0, 0x80},
		{0xed, 0xbf, 0xbf}, {0xf0, 0x80, 0x80, 0x80}, {0xf0, 0x8f, 0xbf, 0xbf}, {0xf0, 0x90, 0x80}, {0xf4, 0x90, 0x80, 0x80}, {0xf5, 0x80, 0x80, 0x80}, {0xf8, 0x88, 0x80, 0x80, 0x80},
		{0xe2, 0x82}, {0xf0, 0x9f, 0x98}, {0xc3, 0x28}, {0xe2, 0x28, 0xa1}, {0xf0, 0x28, 0x8c, 0xbc}, {0xef, 0xbf}, {0xef, 0xbf, 0xbd, 0xff}}
	for _, m := range malformed {
		addStr("malformed", append(append([]byte("a"), m...), 'b'), false)
		addStr("malformed", m, true)
	}
	// all lead bytes x boundary second bytes
	seconds := []byte{0x00, 0x22, 0x7f, 0x80, 0x8f, 0x90, 0x9f, 0xa0, 0xbf, 0xc0, 0xff}
	step := 1
	if !c.Thorough() {
		step = 3
	}
	for b0 := 0x80; b0 <= 0xff; b0 += step {
		for _, b1 := range seconds {
			addStr("lead-x-second", []byte{byte(b0), b1, 0x80, 0x80}, false)
		}
	}
	nrand := 300
	if c.Thorough() {
		nrand = 5000
	}
	rs := r.Fork(1)
	for i := 0; i < nrand; i++ {
		n := rs.Intn(24)
		var b []byte
		for j := 0; j < n; j++ {
			switch rs.Intn(6) {
			case 0:
				b = append(b, byte(rs.Intn(256)))
			case 1:
				b = append(b, byte(rs.Intn(0x20)))
			case 2:
				b = append(b, []byte(string(rune(rs.Intn(0x110000))))...) // surrogates become U+FFFD
			case 3:
				b = append(b, `"\/`[rs.Intn(3)])
			default:
				b = append(b, byte(0x20+rs.Intn(0x5f)))
			}
		}
		addStr("random", b, rs.Chance(1, 4))
	}
	if err := meta.AddCaseFile(str, strDescr); err != nil {
		return err
	}

	// ---- integers: marshal, decode, unmarshal ---------------------------------------------------------
	ints := &gen.CaseFile{Dir: c.OutDir, Prop: "C08", Kind: "int", Requires: req, Type: "int_case",
		Checks: []gen.Check{{"corr", "int_corr"}, {"mon", "int_monitor"}}, Shard: 1000}
	var intDescr []any
	type rng struct{ lo, hi int64 }
	signed := map[int]rng{0: {math.MinInt64, math.MaxInt64}, 1: {math.MinInt32, math.MaxInt32}, 2: {math.MinInt64, math.MaxInt64}, 6: {math.MinInt64, math.MaxInt64}}
	around := []int64{0, 1 << 7, 1 << 8, 1 << 15, 1 << 16, 1 << 31, 1 << 32, 1 << 53, 1 << 62, math.MaxInt64, 9, 10, 99, 100, 999999999, 1000000000}
	addInt := func(tag int, text string, m graphql.Marshaler) {
		out := m2b(m)
		dec, derr := decode(out)
		var back any
		var err error = derr
		if derr == nil {
			back, err = callUnmarshal(tag, dec)
		}
		cq, js := oz(back, err)
		val := text
		if strings.HasPrefix(val, "-") {
			val = "(" + val + ")"
		}
		ints.Add(fmt.Sprintf("{| ic_tag := %s; ic_val := %s; ic_bytes := %s; ic_back := %s |}", gen.Nat(tag), val, gen.Bytes(out), cq))
		intDescr = append(intDescr, intCase{"int", tag, text, string(out), js})
	}
	for tag, rg := range signed {
		seen := map[int64]bool{}
		for _, a := range around {
			for _, d := range []int64{-2, -1, 0, 1, 2} {
				for _, sgn := range []int64{1, -1} {
					v := sgn*a + d
					if sgn == -1 && a == math.MaxInt64 {
						v = math.MinInt64 + (d + 2)
					}
					if a == math.MaxInt64 && sgn == 1 {
						v = math.MaxInt64 - (d + 2)
					}
					if v < rg.lo || v > rg.hi || seen[v] {
						continue
					}
					seen[v] = true
					switch tag {
					case 0:
						addInt(tag, fmt.Sprint(v), graphql.MarshalInt(int(v)))
					case 1:
						addInt(tag, fmt.Sprint(v), graphql.MarshalInt32(int32(v)))
					case 2:
						addInt(tag, fmt.Sprint(v), graphql.MarshalInt64(v))
					case 6:
						addInt(tag, fmt.Sprint(v), graphql.MarshalIntID(int(v)))
					}
				}
			}
		}
	}
	uaround := []uint64{0, 1 << 8, 1 << 16, 1 << 31, 1 << 32, 1 << 63, math.MaxUint64, 10, 100, 9999999999}
	for _, tag := range []int{3, 4, 5, 7} {
		seen := map[uint64]bool{}
		for _, a := range uaround {
			for _, d := range []uint64{0, 1, 2} {
				for _, v := range []uint64{a + d, a - d} {
					if a == math.MaxUint64 {
						v = a - d
					}
					if a == 0 {
						v = d
					}
					if tag == 4 && v > math.MaxUint32 || seen[v] {
						continue
					}
					seen[v] = true
					switch tag {
					case 3:
						addInt(tag, fmt.Sprint(v), graphql.MarshalUint(uint(v)))
					case 4:
						addInt(tag, fmt.Sprint(v), graphql.MarshalUint32(uint32(v)))
					case 5:
						addInt(tag, fmt.Sprint(v), graphql.MarshalUint64(v))
					case 7:
						addInt(tag, fmt.Sprint(v), graphql.MarshalUintID(uint(v)))
					}
				}
			}
		}
	}
	ri := r.Fork(2)
	nri := 200
	if c.Thorough() {
		nri = 5000
	}
	for i := 0; i < nri; i++ {
		v := int64(ri.U64()) >> uint(ri.Intn(64))
		addInt(2, fmt.Sprint(v), graphql.MarshalInt64(v))
		u := ri.U64() >> uint(ri.Intn(64))
		addInt(5, fmt.Sprint(u), graphql.MarshalUint64(u))
	}
	if err := meta.AddCaseFile(ints, intDescr); err != nil {
		return err
	}

	nunm, unmOutcomes, unmSample, err := AddUnm(c, meta, "C08", req)
	if err != nil {
		return err
	}
	// ---- FieldSet / Array composition ----------------------------------------------------------------
	tree := &gen.CaseFile{Dir: c.OutDir, Prop: "C08", Kind: "tree", Requires: req, Type: "tree_case",
		Checks: []gen.Check{{"corr", "tree_corr"}, {"mon", "tree_monitor"}}, Shard: 300}
	var treeDescr []any
	rt := r.Fork(3)
	keyPool := []string{"a", "b", "id", "naïve", "q\"uote", "back\\slash", "tab\t", "", "日本", "bad\xff", "x y"}
	var mk func(depth int) (graphql.Marshaler, string, any)
	mk = func(depth int) (graphql.Marshaler, string, any) {
		k := rt.Intn(8)
		if depth <= 0 && k >= 6 {
			k = rt.Intn(6)
		}
		switch k {
		case 0:
			return graphql.Null, "WLeaf " + gen.Bytes([]byte("null")), nil
		case 1:
			b := rt.Bool()
			return graphql.MarshalBoolean(b), "WLeaf " + gen.Bytes([]byte(fmt.Sprint(b))), b
		case 2:
			n := int(int32(rt.U64()))
			return graphql.MarshalInt(n), "WLeaf " + gen.Bytes([]byte(fmt.Sprint(n))), json.Number(fmt.Sprint(n))
		case 3, 4, 5:
			s := gen.Pick(rt, keyPool) + fmt.Sprint(rt.Intn(10))
			m := graphql.MarshalString(s)
			return m, "WLeaf " + gen.Bytes(m2b(m)), strings.ToValidUTF8(s, "�")
		case 6:
			n := rt.Intn(4)
			arr := graphql.Array{}
			var terms []string
			exp := []any{}
			for i := 0; i < n; i++ {
				m, t, e := mk(depth - 1)
				arr = append(arr, m)
				terms = append(terms, t)
				exp = append(exp, e)
			}
			return arr, "WArr " + gen.List(terms), exp
		default:
			n := rt.Intn(4)
			var fields []graphql.CollectedField
			var vals []graphql.Marshaler
			var terms []string
			exp := map[string]any{}
			for i := 0; i < n; i++ {
				key := gen.Pick(rt, keyPool) + fmt.Sprint(i)
				m, t, e := mk(depth - 1)
				fields = append(fields, graphql.CollectedField{Field: &ast.Field{Alias: key, Name: key}})
				vals = append(vals, m)
				terms = append(terms, fmt.Sprintf("(%s, %s)", gen.Bytes([]byte(key)), t))
				exp[strings.ToValidUTF8(key, "�")] = e
			}
			fs := graphql.NewFieldSet(fields)
			copy(fs.Values, vals)
			return fs, "WObj " + gen.List(terms), exp
		}
	}
	ntree := 200
	if c.Thorough() {
		ntree = 3000
	}
	for i := 0; i < ntree; i++ {
		m, term, exp := mk(1 + rt.Intn(4))
		out := m2b(m)
		dec, derr := decode(out)
		ok := json.Valid(out) && utf8.Valid(out) && derr == nil && reflect.DeepEqual(dec, exp)
		tree.Add(fmt.Sprintf("{| tc_tree := %s; tc_obs := %s; tc_go_valid := %s |}", term, gen.Bytes(out), gen.Bool(ok)))
		treeDescr = append(treeDescr, map[string]any{"kind": "tree", "out": string(out), "go_valid_and_equal": ok})
	}
	if err := meta.AddCaseFile(tree, treeDescr); err != nil {
		return err
	}

	// ---- library-formatted scalars ---------------------------------------------------------------------
	lib := &gen.CaseFile{Dir: c.OutDir, Prop: "C08", Kind: "lib", Requires: req, Type: "lib_case",
		Checks: []gen.Check{{"corr", "lib_corr"}, {"mon", "lib_monitor"}}, Shard: 2000}
	var libDescr []any
	libKinds := map[string]int{}
	addLib := func(kind, in string, class string, errored, ok bool, out string) {
		cl := "None"
		if class != "" {
			cl = "(Some " + class + ")"
		}
		lib.Add(fmt.Sprintf("{| lc_class := %s; lc_errored := %s; lc_valid_roundtrip := %s |}", cl, gen.Bool(errored), gen.Bool(ok)))
		libDescr = append(libDescr, map[string]any{"kind": "lib", "scalar": kind, "in": in, "out": out, "errored": errored, "valid_roundtrip": ok})
		libKinds[kind]++
	}
	rl := r.Fork(4)
	floats := []float64{0, math.Copysign(0, -1), 1, -1, 1.5, 0.1, 1e21, 1e-7, 1e100, math.MaxFloat64, math.SmallestNonzeroFloat64, math.MaxInt64, 1 << 53, math.Pi, math.NaN(), math.Inf(1), math.Inf(-1)}
	nf := 300
	if c.Thorough() {
		nf = 20000
	}
	for i := 0; i < nf; i++ {
		floats = append(floats, math.Float64frombits(rl.U64()))
	}
	for _, f := range floats {
		class := "FFinite"
		if math.IsNaN(f) {
			class = "FNaN"
		} else if math.IsInf(f, 0) {
			class = "FInf"
		}
		var b bytes.Buffer
		err := graphql.MarshalFloatContext(f).MarshalGQLContext(context.Background(), &b)
		ok := false
		if err == nil {
			dec, derr := decode(b.Bytes())
			if derr == nil && json.Valid(b.Bytes()) {
				back, uerr := graphql.UnmarshalFloatContext(context.Background(), dec)
				ok = uerr == nil && math.Float64bits(back) == math.Float64bits(f)
			}
		}
		addLib("FloatContext", fmt.Sprint(f), class, err != nil, ok, b.String())
	}
	times := []time.Time{time.Unix(0, 0).UTC(), time.Date(1, 1, 1, 0, 0, 0, 1, time.UTC), time.Date(9999, 12, 31, 23, 59, 59, 999999999, time.UTC),
		time.Date(2024, 2, 29, 12, 0, 0, 0, time.FixedZone("x", 5*3600+1800)), time.Date(1969, 7, 20, 20, 17, 40, 0, time.FixedZone("y", -7*3600)), {}}
	for i := 0; i < 100; i++ {
		times = append(times, time.Unix(int64(rl.U64()%253402300800), int64(rl.Intn(1e9))).In(time.FixedZone("r", (rl.Intn(27)-12)*3600)))
	}
	// named locations whose offset changes over the year (and over the decades): instants on both sides of the
	// transitions, of one and the same *time.Location value, one after the other
	for _, name := range []string{"Europe/Berlin", "America/New_York", "Europe/London", "Australia/Lord_Howe", "Europe/Moscow", "Asia/Kolkata"} {
		loc, lerr := time.LoadLocation(name)
		if lerr != nil {
			continue
		}
		for _, y := range []int{2024, 1985, 2012} {
			for _, m := range []time.Month{time.January, time.July, time.March, time.October, time.December, time.June} {
				times = append(times, time.Date(y, m, 15, 9, 30, 0, int(rl.Intn(1e9)), loc))
			}
		}
	}
	for _, t := range times {
		out := m2b(graphql.MarshalTime(t))
		ok := false
		if t.IsZero() {
			ok = string(out) == "null"
		} else if dec, derr := decode(out); derr == nil && json.Valid(out) {
			back, uerr := graphql.UnmarshalTime(dec)
			ok = uerr == nil && back.Equal(t)
		}
		addLib("Time", t.Format(time.RFC3339Nano), "", false, ok, string(out))
	}
	durs := []time.Duration{0, 1, -1, time.Second, 90 * time.Minute, 36 * time.Hour, 24 * 365 * time.Hour, time.Duration(math.MaxInt64 / 4), 1500 * time.Millisecond}
	for i := 0; i < 60; i++ {
		durs = append(durs, time.Duration(int64(rl.U64())>>uint(2+rl.Intn(50))))
	}
	for _, d := range durs {
		out := m2b(graphql.MarshalDuration(d))
		ok := false
		if dec, derr := decode(out); derr == nil && json.Valid(out) {
			back, uerr := graphql.UnmarshalDuration(dec)
			ok = uerr == nil && back == d
		}
		addLib("Duration", d.String(), "", false, ok, string(out))
	}
	for i := 0; i < 60; i++ {
		var id uuid.UUID
		if i > 0 {
			for j := range id {
				id[j] = byte(rl.Intn(256))
			}
		}
		out := m2b(graphql.MarshalUUID(id))
		ok := false
		if id == uuid.Nil {
			ok = string(out) == "null"
		} else if dec, derr := decode(out); derr == nil && json.Valid(out) {
			back, uerr := graphql.UnmarshalUUID(dec)
			ok = uerr == nil && back == id
		}
		addLib("UUID", id.String(), "", false, ok, string(out))
	}
	for i := 0; i < 80; i++ {
		var mkAny func(d int) any
		mkAny = func(d int) any {
			switch k := rl.Intn(6); {
			case k == 0:
				return nil
			case k == 1:
				return rl.Bool()
			case k == 2 || d <= 0:
				return strings.ToValidUTF8(gen.Pick(rl, keyPool), "�") + "<&>"
			case k == 3:
				return json.Number(fmt.Sprint(int32(rl.U64())))
			case k == 4:
				var l []any = []any{}
				for j := rl.Intn(3); j > 0; j-- {
					l = append(l, mkAny(d-1))
				}
				return l
			default:
				m := map[string]any{}
				for j := rl.Intn(3); j > 0; j-- {
					m[strings.ToValidUTF8(gen.Pick(rl, keyPool), "�")] = mkAny(d - 1)
				}
				return m
			}
		}
		v := mkAny(3)
		out := m2b(graphql.MarshalAny(v))
		dec, derr := decode(out)
		back, _ := graphql.UnmarshalAny(dec)
		addLib("Any", fmt.Sprint(v), "", false, derr == nil && json.Valid(out) && utf8.Valid(out) && reflect.DeepEqual(back, v), string(out))
		if m, isMap := v.(map[string]any); isMap {
			out := m2b(graphql.MarshalMap(m))
			dec, derr := decode(out)
			back, uerr := graphql.UnmarshalMap(dec)
			addLib("Map", fmt.Sprint(v), "", false, derr == nil && uerr == nil && json.Valid(out) && reflect.DeepEqual(back, m), string(out))
		}
		// Omittable of a string through MarshalGQL and encoding/json
		s := strings.ToValidUTF8(gen.Pick(rl, keyPool), "�")
		o := graphql.OmittableOf(s)
		out = m2b(o)
		var o2 graphql.Omittable[string]
		uerr := json.Unmarshal(out, &o2)
		addLib("Omittable", s, "", false, uerr == nil && json.Valid(out) && o2.IsSet() && o2.Value() == s, string(out))
	}
	if err := meta.AddCaseFile(lib, libDescr); err != nil {
		return err
	}

	meta.Evaluations = str.Len() + ints.Len() + nunm + tree.Len() + lib.Len()
	meta.DistinctNontrivial = len(distinct)
	meta.Rule = "direct calls: MarshalString/MarshalID on every ASCII special, boundary code points, a malformed-sequence table (overlong, surrogate, >10FFFF, truncated, stray continuation), every 3rd (quick) or every (thorough) lead byte x 11 second bytes, random byte/rune mixes; every integer marshaler at width boundaries +-2 then jsonDecode(UseNumber)+its unmarshaler; all 8 integer unmarshalers x 110 dynamic values (numeric-looking strings, typed ints at boundaries, floats, bool, nil, containers); random FieldSet/Array trees validated by encoding/json; library-formatted scalars (FloatContext incl. NaN/Inf and random bit patterns, Time, Duration, UUID, Any, Map, Omittable) validated and round-tripped in Go. distinct_nontrivial = distinct non-empty string inputs."
	meta.Samples = []any{strDescr[40], intDescr[3], unmSample, treeDescr[0], libDescr[len(libDescr)-1]}
	meta.Distribution = map[string]any{"string_classes": strClasses, "int_cases": ints.Len(), "unmarshal_outcomes": unmOutcomes, "tree_cases": tree.Len(), "library_scalars": libKinds}
	if nh, err := heldResponses(meta); err != nil {
		return err
	} else {
		meta.Notes = append(meta.Notes, fmt.Sprintf("%d operations with and without @defer on generated servers whose responses are kept until the operation is over and looked at again: each still holds the bytes it was handed over with, valid JSON", nh))
	}
	return meta.Write(c.OutDir)
}

// AddUnm runs all integer unmarshalers over the dynamic-value table (shared with C02).
func AddUnm(c *gen.Ctx, meta *gen.Meta, prop string, req []string) (int, map[string]int, any, error) {
	// ---- unmarshalers on dynamic values ------------------------------------------------------------
	unm := &gen.CaseFile{Dir: c.OutDir, Prop: prop, Kind: "unm", Requires: req, Type: "unm_case",
		Checks: []gen.Check{{"corr", "unm_corr"}, {"mon", "unm_monitor"}}, Shard: 1500}
	var unmDescr []any
	texts := []string{"0", "-0", "+0", "1", "-1", "+5", "007", "-007", "12", "1.0", "1e3", "", " 1", "1 ", "abc", "0x10", "1_000", "--1", "+-1", "-", "+",
		"2147483647", "2147483648", "-2147483648", "-2147483649", "4294967295", "4294967296",
		"9223372036854775807", "9223372036854775808", "-9223372036854775808", "-9223372036854775809",
		"18446744073709551615", "18446744073709551616", "99999999999999999999999", "-99999999999999999999999", "١٢", "1\x00"}
	var inputs []goval
	for _, t := range texts {
		inputs = append(inputs, gv("GString", t), gv("GNumber", t))
	}
	for _, z := range []int64{0, 1, -1, -2, 5, math.MaxInt32, math.MaxInt32 + 1, math.MinInt32, math.MinInt32 - 1, math.MaxUint32, math.MaxUint32 + 1, math.MaxInt64, math.MinInt64, math.MinInt64 + 1, -(1 << 40)} {
		inputs = append(inputs, gint("GInt", z), gint("GInt64", z))
		if z >= math.MinInt32 && z <= math.MaxInt32 {
			inputs = append(inputs, gint("GInt32", z))
		}
	}
	for _, z := range []uint64{0, 1, math.MaxUint32, math.MaxUint32 + 1, 1 << 63, math.MaxUint64} {
		inputs = append(inputs, guint("GUint64", z))
		if z <= math.MaxUint32 {
			inputs = append(inputs, guint("GUint32", z))
		}
	}
	inputs = append(inputs,
		goval{"(GFloat (Some 1))", "float64(1)", float64(1), false}, goval{"(GFloat None)", "float64(1.5)", 1.5, false},
		goval{"(GFloat (Some (-3)))", "float64(-3)", float64(-3), false},
		goval{"(GBool true)", "true", true, false}, goval{"(GBool false)", "false", false, false},
		goval{"GNil", "nil", nil, false}, goval{"GOther", "map", map[string]any{"a": 1}, false}, goval{"GOther", "slice", []any{1}, false})
	unmOutcomes := map[string]int{}
	for fn := 0; fn < 8; fn++ {
		for _, in := range inputs {
			v, err := callUnmarshal(fn, in.val)
			cq, js := oz(v, err)
			sig := ""
			if fn == 7 && in.neg {
				sig = "uintid-negative-int-wraps"
			}
			unm.Add(fmt.Sprintf("{| uc_fn := %s; uc_in := %s; uc_obs := %s |}", gen.Nat(fn), in.coq, cq))
			unmDescr = append(unmDescr, unmCase{"unm", fn, fnNames[fn] + "(" + in.js + ")", js, sig})
			if err != nil {
				unmOutcomes["error"]++
			} else {
				unmOutcomes["ok"]++
			}
		}
	}
	if err := meta.AddCaseFile(unm, unmDescr); err != nil {
		return 0, nil, nil, err
	}
	return unm.Len(), unmOutcomes, unmDescr[5], nil
}
