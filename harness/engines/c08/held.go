package c08

import (
	"encoding/json"
	"fmt"

	"verifharness/engines/xeng"
	"verifharness/gen"
)

// heldResponses: what a generated server hands to the transport - the *graphql.Response of the initial payload and of
// every deferred one - is kept until the operation is over, as the multipart/mixed aggregator keeps responses until
// its next flush, and looked at again then: every response must still hold the bytes it was handed over with, and
// those bytes must be valid JSON.
func heldResponses(meta *gen.Meta) (int, error) {
	probes, err := xeng.BuildProbes(xeng.ProbeSchema, xeng.QuickConfigs, nil)
	if err != nil {
		return 0, err
	}
	ops := []string{
		`query Op { a { a1 ... @defer { name a2 } } }`,
		`query Op { a { a1 ... @defer(label: "x") { name } ... @defer(label: "y") { a2 strictPeer { a1 } } } scalar }`,
		`query Op { as { id ... @defer(label: "x") { a1 kids { id } } } scalar }`,
		`query Op { a { ... @defer { peer { id ... @defer { name } } } } strict }`,
		`query Op { nodes { id ... on A @defer { as { a1 } } } }`,
		`query Op { scalar a { a1 name } }`,
	}
	n := 0
	for _, p := range probes {
		if p.Built.Bin == "" {
			continue // reported by the properties that own the probes
		}
		var cases []xeng.Case
		for i, q := range ops {
			for rep := 0; rep < 3; rep++ {
				cases = append(cases, xeng.Case{ID: i*3 + rep, Query: q, Oracle: xeng.NewOracle(), TimeoutMs: 4000})
			}
		}
		res, err := xeng.RunAll(p.Built.Bin, cases)
		if err != nil {
			return n, err
		}
		for i, r := range res {
			n++
			problem := ""
			switch {
			case r.Crashed || r.Hang || len(r.Responses) == 0:
				problem = fmt.Sprintf("no response (crashed=%v hang=%v)", r.Crashed, r.Hang)
			case len(r.Changed) > 0:
				problem = fmt.Sprintf("of %d responses handed over, those at %v held other bytes when the operation was over", len(r.Responses), r.Changed)
			default:
				for k, b := range r.Responses {
					if !json.Valid(b) || len(b) == 0 || b[0] != '{' {
						problem = fmt.Sprintf("response %d is not a JSON object: %.200q", k, string(b))
					}
				}
			}
			if problem != "" {
				meta.Direct = append(meta.Direct, gen.DirectFinding{Signature: "response-bytes-change-after-handover",
					What:   fmt.Sprintf("config %s, %s: %s", p.Cfg.Name, cases[i].Query, problem),
					Replay: map[string]any{"config": p.Cfg.Name, "query": cases[i].Query}})
				break
			}
		}
	}
	return n, nil
}
