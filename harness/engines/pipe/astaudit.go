package pipe

import (
	"fmt"

	"github.com/vektah/gqlparser/v2"
	"github.com/vektah/gqlparser/v2/ast"
	"github.com/vektah/gqlparser/v2/validator"

	"github.com/99designs/gqlgen/graphql"

	"verifharness/engines/xeng"
	"verifharness/gen"
	"verifharness/qgen"
)

// The parsed document of a request is shared through the query cache by every later request with the same
// text: executing an operation must not write to it.  astAudit runs gqlgen's field collection over whole
// operations (every object type an abstract position can hold) and compares every selection-set slice of the
// document - INCLUDING the spare capacity behind its length, where an append lands - before and after.

type sliceSnap struct {
	where string
	full  []ast.Selection // the slice re-sliced to its capacity
	n     int
}

func snapshot(doc *ast.QueryDocument) []sliceSnap {
	var out []sliceSnap
	var walk func(where string, set ast.SelectionSet)
	walk = func(where string, set ast.SelectionSet) {
		full := set[:cap(set)]
		cp := make([]ast.Selection, len(full))
		copy(cp, full)
		out = append(out, sliceSnap{where, cp, len(set)})
		for i, sel := range set {
			switch x := sel.(type) {
			case *ast.Field:
				walk(fmt.Sprintf("%s/%s", where, x.Alias), x.SelectionSet)
			case *ast.InlineFragment:
				walk(fmt.Sprintf("%s/...%d", where, i), x.SelectionSet)
			}
		}
	}
	for _, op := range doc.Operations {
		walk("op", op.SelectionSet)
	}
	for _, f := range doc.Fragments {
		walk("fragment "+f.Name, f.SelectionSet)
	}
	return out
}

func sameSnap(a, b []sliceSnap) string {
	if len(a) != len(b) {
		return "the number of selection sets changed"
	}
	for i := range a {
		if a[i].n != b[i].n || len(a[i].full) != len(b[i].full) {
			return "selection set " + a[i].where + " changed its length or capacity"
		}
		for k := range a[i].full {
			if a[i].full[k] != b[i].full[k] {
				if k >= a[i].n {
					return fmt.Sprintf("selection set %s: the spare capacity behind its %d selections was written (slot %d)", a[i].where, a[i].n, k)
				}
				return fmt.Sprintf("selection set %s: selection %d was replaced", a[i].where, k)
			}
		}
	}
	return ""
}

func satisfies(s *ast.Schema, obj *ast.Definition) []string {
	out := []string{obj.Name}
	for _, d := range s.GetImplements(obj) {
		out = append(out, d.Name)
	}
	return out
}

func collectAll(s *ast.Schema, oc *graphql.OperationContext, typ *ast.Definition, set ast.SelectionSet, depth int) {
	if depth > 12 || typ == nil {
		return
	}
	var objs []*ast.Definition
	switch typ.Kind {
	case ast.Object:
		objs = []*ast.Definition{typ}
	case ast.Interface, ast.Union:
		objs = s.GetPossibleTypes(typ)
	default:
		return
	}
	for _, obj := range objs {
		if obj.Kind != ast.Object {
			continue
		}
		for _, cf := range graphql.CollectFields(oc, set, satisfies(s, obj)) {
			fd := obj.Fields.ForName(cf.Name)
			if fd == nil {
				continue
			}
			collectAll(s, oc, s.Types[fd.Type.Name()], cf.Selections, depth+1)
		}
	}
}

func astAudit(r *gen.Rand, n int, meta *gen.Meta) int {
	s := xeng.Schema
	done := 0
	pinned := []string{
		`query Op($v: Boolean!) { a { a1 a2 name } a @include(if: $v) { inl } a { id } }`,
		`query Op($v: Boolean!) { a { a1 a2 name id inl } ...F @include(if: $v) } fragment F on Query { a { inlStrict } b { id name b1 } b { id } }`,
	}
	for i := 0; i < n; i++ {
		var q string
		var raw map[string]any
		if i < len(pinned) {
			q, raw = pinned[i], map[string]any{"v": true}
		} else {
			g := qgen.New(r, s, qgen.Options{MaxDepth: 2 + r.Intn(4), MaxWidth: 2 + r.Intn(5), SkipInclude: true, Typename: true, Variables: true, FragmentRate: 50, AliasRate: 10})
			q, raw = g.Operation(ast.Query)
		}
		doc, errs := gqlparser.LoadQuery(s, q)
		if errs != nil {
			continue
		}
		op := doc.Operations[0]
		vars, verr := validator.VariableValues(s, op, raw)
		if verr != nil {
			continue
		}
		before := snapshot(doc)
		oc := &graphql.OperationContext{RawQuery: q, Variables: vars, Doc: doc, Operation: op}
		for rep := 0; rep < 2; rep++ { // a cached document is executed again and again
			collectAll(s, oc, s.Query, op.SelectionSet, 0)
		}
		done++
		if diff := sameSnap(before, snapshot(doc)); diff != "" {
			meta.Direct = append(meta.Direct, gen.DirectFinding{Signature: "execution-writes-to-the-shared-document",
				What: "collecting the fields of an operation changed its parsed document, which the query cache shares between requests: " + diff,
				Replay: map[string]any{"query": q, "variables": raw}})
			if len(meta.Direct) > 3 {
				break
			}
		}
	}
	return done
}
