package pipe

import (
	"fmt"
	"net/http/httptest"
	"sync"

	"verifharness/gen"
)

// doQuiet sends one request without touching the per-request bookkeeping of the server wrapper (safe to call from
// several goroutines at once).
func (s *server) doQuiet(q rawReq, docs []docInfo) (o obsResp) {
	w := httptest.NewRecorder()
	func() {
		defer func() {
			if r := recover(); r != nil {
				o.Crash = fmt.Sprint(r)
			}
		}()
		s.srv.ServeHTTP(w, q.build(docs))
	}()
	o.Status, o.CType, o.Body = w.Code, w.Header().Get("Content-Type"), w.Body.String()
	return o
}

// concurrentFresh: "... or are in flight beside it".  A batch of requests is sent to one server at once, each three
// times over (so that the parsed-document cache and the transports' pooled objects are reused while other requests
// are in flight); every response must be what a freshly built server answers to that request alone.
func concurrentFresh(c *gen.Ctx, r *gen.Rand, meta *gen.Meta) int {
	var docs []docInfo
	for _, t := range docTexts {
		docs = append(docs, classify(t))
	}
	rounds := 150
	if c.Thorough() {
		rounds = 3000
	}
	sent, failures := 0, 0
	for round := 0; round < rounds; round++ {
		cfg := serverCfg{Transports: defaultTransports, Hdr: gen.Pick(r, []string{"none", "none", "ct", "noct"}), Cache: "none", NoSuggest: r.Chance(1, 3)}
		if r.Chance(2, 3) {
			cfg.Cache, cfg.CacheK = "lru", 1+r.Intn(3)
		}
		n := 6 + r.Intn(11)
		reqs := make([]rawReq, n)
		want := make([]obsResp, n)
		for i := range reqs {
			reqs[i] = randReq(r, docs, 0, 10)
			want[i] = newServer(cfg).doQuiet(reqs[i], docs)
		}
		srv := newServer(cfg)
		got := make([][]obsResp, n)
		start := make(chan struct{})
		var wg sync.WaitGroup
		for i := range reqs {
			wg.Add(1)
			go func(i int) {
				defer wg.Done()
				<-start
				for k := 0; k < 3; k++ {
					got[i] = append(got[i], srv.doQuiet(reqs[i], docs))
				}
			}(i)
		}
		close(start)
		wg.Wait()
		for i := range reqs {
			for k, g := range got[i] {
				sent++
				if !same(g, want[i]) || g.Crash != "" {
					failures++
					if failures <= 5 {
						meta.Direct = append(meta.Direct, gen.DirectFinding{Signature: "response-with-requests-in-flight-differs-from-fresh-server",
							What: fmt.Sprintf("request %d (send %d) of a batch of %d sent at once was answered %d %q %s; a fresh server answers it %d %q %s",
								i, k, n, g.Status, g.CType, g.Body, want[i].Status, want[i].CType, want[i].Body),
							Replay: map[string]any{"server": cfg, "requests": reqs, "request": i}})
					}
				}
			}
		}
	}
	meta.Notes = append(meta.Notes, fmt.Sprintf("%d rounds of 6..16 generated requests (all transports, valid and malformed) sent at once to one server, each three times over (%d responses): status, Content-Type and body must be those of a fresh server answering the request alone; %d differed", rounds, sent, failures))
	return sent
}
