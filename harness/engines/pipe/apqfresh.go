package pipe

import (
	"context"
	"crypto/sha256"
	"encoding/hex"
	"encoding/json"
	"fmt"
	"net/http/httptest"
	"strings"

	"github.com/vektah/gqlparser/v2/ast"

	"github.com/99designs/gqlgen/graphql"
	"github.com/99designs/gqlgen/graphql/handler"
	"github.com/99designs/gqlgen/graphql/handler/extension"
	"github.com/99designs/gqlgen/graphql/handler/lru"
	"github.com/99designs/gqlgen/graphql/handler/transport"

	"verifharness/gen"
)

// apqFreshOracle: with the automatic-persisted-query extension installed, the only request whose answer may depend on
// earlier requests is a hash-only one; every request that carries its text must be answered exactly as a freshly built
// server answers it alone.  Every history up to length 3 over {text, text + own hash, text + the other text's hash,
// hash only} x two texts.
func apqFreshOracle(meta *gen.Meta) int {
	texts := []string{"{ a }", "{ b }"}
	sha := func(s string) string { h := sha256.Sum256([]byte(s)); return hex.EncodeToString(h[:]) }
	type rq struct {
		Text string `json:"text,omitempty"`
		Hash string `json:"hash,omitempty"`
	}
	var alphabet []rq
	for i, t := range texts {
		alphabet = append(alphabet, rq{Text: t}, rq{Text: t, Hash: sha(t)}, rq{Text: t, Hash: sha(texts[1-i])}, rq{Hash: sha(t)})
	}
	mk := func() *handler.Server {
		es := &graphql.ExecutableSchemaMock{
			SchemaFunc: func() *ast.Schema { return schema },
			ComplexityFunc: func(ctx context.Context, typeName, fieldName string, childComplexity int, args map[string]any) (int, bool) {
				return 0, false
			},
			ExecFunc: func(ctx context.Context) graphql.ResponseHandler {
				oc := graphql.GetOperationContext(ctx)
				name := "?"
				if len(oc.Operation.SelectionSet) > 0 {
					if f, ok := oc.Operation.SelectionSet[0].(*ast.Field); ok {
						name = f.Name
					}
				}
				return graphql.OneShot(&graphql.Response{Data: []byte(fmt.Sprintf(`{"%s":1}`, name))})
			},
		}
		srv := handler.New(es)
		srv.AddTransport(transport.POST{})
		srv.SetQueryCache(lru.New[*ast.QueryDocument](16))
		srv.Use(extension.AutomaticPersistedQuery{Cache: graphql.MapCache[string]{}})
		return srv
	}
	send := func(srv *handler.Server, r rq) string {
		body := map[string]any{}
		if r.Text != "" {
			body["query"] = r.Text
		}
		if r.Hash != "" {
			body["extensions"] = map[string]any{"persistedQuery": map[string]any{"version": 1, "sha256Hash": r.Hash}}
		}
		b, _ := json.Marshal(body)
		req := httptest.NewRequest("POST", "/query", strings.NewReader(string(b)))
		req.Header.Set("Content-Type", "application/json")
		w := httptest.NewRecorder()
		srv.ServeHTTP(w, req)
		return fmt.Sprintf("%d %s", w.Code, strings.TrimSpace(w.Body.String()))
	}
	n := 0
	var rec func(pre []rq, k int)
	rec = func(pre []rq, k int) {
		if len(pre) > 0 {
			n++
			srv := mk()
			var last string
			for _, r := range pre {
				last = send(srv, r)
			}
			final := pre[len(pre)-1]
			if final.Text != "" { // carries its text: history must not matter
				if alone := send(mk(), final); alone != last {
					meta.Direct = append(meta.Direct, gen.DirectFinding{Signature: "apq-request-with-text-depends-on-history",
						What:   fmt.Sprintf("a request that carries its query text is answered %q after this history, %q by a fresh server", last, alone),
						Replay: map[string]any{"history": pre}})
				}
			}
		}
		if k == 0 {
			return
		}
		for _, a := range alphabet {
			rec(append(append([]rq{}, pre...), a), k-1)
		}
	}
	rec(nil, 3)
	return n
}
