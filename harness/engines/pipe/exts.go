package pipe

import (
	"context"
	"fmt"
	"sync"

	"github.com/vektah/gqlparser/v2/gqlerror"

	"github.com/99designs/gqlgen/graphql"
)

type ctxKey string

const (
	rejectParamKey ctxKey = "rejectParam"
	rejectCtxKey   ctxKey = "rejectCtx"
)

// recorder collects the event log of one request as Coq terms.
type recorder struct {
	mu     sync.Mutex
	events []string
}

func (r *recorder) add(format string, a ...any) {
	r.mu.Lock()
	r.events = append(r.events, fmt.Sprintf(format, a...))
	r.mu.Unlock()
}

type core struct {
	idx int
	rec **recorder
}

func (c core) ExtensionName() string                   { return fmt.Sprintf("verif%d", c.idx) }
func (c core) Validate(graphql.ExecutableSchema) error { return nil }
func (c core) log(format string, a ...any)             { (*c.rec).add(format, a...) }

func fieldName(ctx context.Context) string {
	if fc := graphql.GetFieldContext(ctx); fc != nil && fc.Field.Field != nil {
		return fc.Field.Name
	}
	if rc := graphql.GetRootFieldContext(ctx); rc != nil && rc.Field.Field != nil {
		return rc.Field.Name
	}
	if v, ok := ctx.Value(ctxKey("field")).(string); ok {
		return v
	}
	return "?"
}

func (c core) param(ctx context.Context, _ *graphql.RawParams) *gqlerror.Error {
	c.log("EvParam %d", c.idx)
	if v, ok := ctx.Value(rejectParamKey).(int); ok && v == c.idx {
		return gqlerror.Errorf("rejected by parameter mutator %d", c.idx)
	}
	return nil
}

func (c core) opctx(ctx context.Context, _ *graphql.OperationContext) *gqlerror.Error {
	c.log("EvCtx %d", c.idx)
	if v, ok := ctx.Value(rejectCtxKey).(int); ok && v == c.idx {
		return gqlerror.Errorf("rejected by context mutator %d", c.idx)
	}
	return nil
}

func (c core) op(ctx context.Context, next graphql.OperationHandler) graphql.ResponseHandler {
	c.log("EvOpEnter %d", c.idx)
	h := next(ctx)
	c.log("EvOpExit %d", c.idx)
	return h
}

func (c core) resp(ctx context.Context, next graphql.ResponseHandler) *graphql.Response {
	c.log("EvRespEnter %d", c.idx)
	r := next(ctx)
	c.log("EvRespExit %d", c.idx)
	return r
}

func (c core) root(ctx context.Context, next graphql.RootResolver) graphql.Marshaler {
	f := fieldName(ctx)
	c.log("EvRootEnter %d \"%s\"%%string", c.idx, f)
	m := next(ctx)
	c.log("EvRootExit %d \"%s\"%%string", c.idx, f)
	return m
}

func (c core) field(ctx context.Context, next graphql.Resolver) (any, error) {
	f := fieldName(ctx)
	c.log("EvFieldEnter %d \"%s\"%%string", c.idx, f)
	res, err := next(ctx)
	c.log("EvFieldExit %d \"%s\"%%string", c.idx, f)
	return res, err
}

// One Go type per hook subset (Executor.Use discovers hooks by interface satisfaction).
type (
	extP    struct{ core }
	extC    struct{ core }
	extO    struct{ core }
	extR    struct{ core }
	extRt   struct{ core }
	extF    struct{ core }
	extAll  struct{ core }
	extPC   struct{ core }
	extOR   struct{ core }
	extRtF  struct{ core }
	extORRF struct{ core }
)

func (e extP) MutateOperationParameters(ctx context.Context, p *graphql.RawParams) *gqlerror.Error {
	return e.param(ctx, p)
}
func (e extC) MutateOperationContext(ctx context.Context, o *graphql.OperationContext) *gqlerror.Error {
	return e.opctx(ctx, o)
}
func (e extO) InterceptOperation(ctx context.Context, n graphql.OperationHandler) graphql.ResponseHandler {
	return e.op(ctx, n)
}
func (e extR) InterceptResponse(ctx context.Context, n graphql.ResponseHandler) *graphql.Response {
	return e.resp(ctx, n)
}
func (e extRt) InterceptRootField(ctx context.Context, n graphql.RootResolver) graphql.Marshaler {
	return e.root(ctx, n)
}
func (e extF) InterceptField(ctx context.Context, n graphql.Resolver) (any, error) {
	return e.field(ctx, n)
}

func (e extAll) MutateOperationParameters(ctx context.Context, p *graphql.RawParams) *gqlerror.Error {
	return e.param(ctx, p)
}
func (e extAll) MutateOperationContext(ctx context.Context, o *graphql.OperationContext) *gqlerror.Error {
	return e.opctx(ctx, o)
}
func (e extAll) InterceptOperation(ctx context.Context, n graphql.OperationHandler) graphql.ResponseHandler {
	return e.op(ctx, n)
}
func (e extAll) InterceptResponse(ctx context.Context, n graphql.ResponseHandler) *graphql.Response {
	return e.resp(ctx, n)
}
func (e extAll) InterceptRootField(ctx context.Context, n graphql.RootResolver) graphql.Marshaler {
	return e.root(ctx, n)
}
func (e extAll) InterceptField(ctx context.Context, n graphql.Resolver) (any, error) {
	return e.field(ctx, n)
}

func (e extPC) MutateOperationParameters(ctx context.Context, p *graphql.RawParams) *gqlerror.Error {
	return e.param(ctx, p)
}
func (e extPC) MutateOperationContext(ctx context.Context, o *graphql.OperationContext) *gqlerror.Error {
	return e.opctx(ctx, o)
}
func (e extOR) InterceptOperation(ctx context.Context, n graphql.OperationHandler) graphql.ResponseHandler {
	return e.op(ctx, n)
}
func (e extOR) InterceptResponse(ctx context.Context, n graphql.ResponseHandler) *graphql.Response {
	return e.resp(ctx, n)
}
func (e extRtF) InterceptRootField(ctx context.Context, n graphql.RootResolver) graphql.Marshaler {
	return e.root(ctx, n)
}
func (e extRtF) InterceptField(ctx context.Context, n graphql.Resolver) (any, error) {
	return e.field(ctx, n)
}
func (e extORRF) InterceptOperation(ctx context.Context, n graphql.OperationHandler) graphql.ResponseHandler {
	return e.op(ctx, n)
}
func (e extORRF) InterceptResponse(ctx context.Context, n graphql.ResponseHandler) *graphql.Response {
	return e.resp(ctx, n)
}
func (e extORRF) InterceptRootField(ctx context.Context, n graphql.RootResolver) graphql.Marshaler {
	return e.root(ctx, n)
}
func (e extORRF) InterceptField(ctx context.Context, n graphql.Resolver) (any, error) {
	return e.field(ctx, n)
}

type extSpec struct {
	Kind                            string
	Param, Ctx, Op, Resp, Root, Fld bool
}

var extKinds = []extSpec{
	{"P", true, false, false, false, false, false},
	{"C", false, true, false, false, false, false},
	{"O", false, false, true, false, false, false},
	{"R", false, false, false, true, false, false},
	{"Rt", false, false, false, false, true, false},
	{"F", false, false, false, false, false, true},
	{"All", true, true, true, true, true, true},
	{"PC", true, true, false, false, false, false},
	{"OR", false, false, true, true, false, false},
	{"RtF", false, false, false, false, true, true},
	{"ORRF", false, false, true, true, true, true},
}

func (s extSpec) make(idx int, rec **recorder) graphql.HandlerExtension {
	c := core{idx: idx, rec: rec}
	switch s.Kind {
	case "P":
		return extP{c}
	case "C":
		return extC{c}
	case "O":
		return extO{c}
	case "R":
		return extR{c}
	case "Rt":
		return extRt{c}
	case "F":
		return extF{c}
	case "All":
		return extAll{c}
	case "PC":
		return extPC{c}
	case "OR":
		return extOR{c}
	case "RtF":
		return extRtF{c}
	default:
		return extORRF{c}
	}
}

func b(x bool) string {
	if x {
		return "true"
	}
	return "false"
}

func (s extSpec) coq() string {
	return fmt.Sprintf("{| e_param := %s; e_ctx := %s; e_op := %s; e_resp := %s; e_root := %s; e_field := %s |}",
		b(s.Param), b(s.Ctx), b(s.Op), b(s.Resp), b(s.Root), b(s.Fld))
}
