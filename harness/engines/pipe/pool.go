package pipe

import (
	"context"
	"encoding/json"
	"fmt"
	"net/http/httptest"
	"sort"
	"strings"
	"sync"

	"github.com/vektah/gqlparser/v2/ast"
	"github.com/vektah/gqlparser/v2/gqlerror"

	"github.com/99designs/gqlgen/graphql"
	"github.com/99designs/gqlgen/graphql/handler"
	"github.com/99designs/gqlgen/graphql/handler/transport"

	"verifharness/gen"
)

// ---- the pooled parameters of the POST transport against Model.ParamPool -------------------------------------

// member of a JSON request body, in order
type poolMember struct {
	Kind  string            `json:"kind"` // text object null wrongtype unknown syntax
	Field string            `json:"field,omitempty"`
	Text  string            `json:"text,omitempty"`
	Keys  map[string]string `json:"keys,omitempty"`
}

var poolFieldCoq = map[string]string{"query": "FQuery", "operationName": "FOpName", "variables": "FVariables", "extensions": "FExtensions"}

func (m poolMember) coq() string {
	f := poolFieldCoq[m.Field]
	switch m.Kind {
	case "text":
		return fmt.Sprintf("MText %s %s", f, gen.Str(m.Text))
	case "object":
		keys := make([]string, 0, len(m.Keys))
		for k := range m.Keys {
			keys = append(keys, k)
		}
		sort.Strings(keys)
		var kv []string
		for _, k := range keys {
			kv = append(kv, fmt.Sprintf("(%s, %s)", gen.Str(k), gen.Str(m.Keys[k])))
		}
		return fmt.Sprintf("MObject %s %s", f, gen.List(kv))
	case "null":
		return "MNull " + f
	case "wrongtype":
		return "MWrongType " + f
	case "unknown":
		return "MUnknown"
	}
	return "MSyntaxError"
}

// render writes the members as the text of a JSON object (cut off at a syntax member)
func renderBody(ms []poolMember) string {
	var parts []string
	for _, m := range ms {
		switch m.Kind {
		case "text":
			b, _ := json.Marshal(m.Text)
			parts = append(parts, fmt.Sprintf("%q:%s", m.Field, b))
		case "object":
			b, _ := json.Marshal(m.Keys)
			parts = append(parts, fmt.Sprintf("%q:%s", m.Field, b))
		case "null":
			parts = append(parts, fmt.Sprintf("%q:null", m.Field))
		case "wrongtype":
			v := `"oops"`
			if m.Field == "query" || m.Field == "operationName" {
				v = "5"
			}
			parts = append(parts, fmt.Sprintf("%q:%s", m.Field, v))
		case "unknown":
			parts = append(parts, `"somethingElse":[1,{"a":null}]`)
		case "syntax":
			return "{" + strings.Join(parts, ",") + `,"cut":`
		}
	}
	return "{" + strings.Join(parts, ",") + "}"
}

func genPoolBody(r *gen.Rand) []poolMember {
	var ms []poolMember
	if !r.Chance(1, 8) {
		ms = append(ms, poolMember{Kind: "text", Field: "query", Text: gen.Pick(r, []string{"{ a }", "query A { a } query B { b }", "query B { b }"})})
	}
	for i := r.Intn(4); i > 0; i-- {
		switch r.Intn(9) {
		case 0, 1:
			ms = append(ms, poolMember{Kind: "text", Field: "operationName", Text: gen.Pick(r, []string{"A", "B"})})
		case 2, 3:
			ms = append(ms, poolMember{Kind: "object", Field: gen.Pick(r, []string{"variables", "extensions"}), Keys: map[string]string{gen.Pick(r, []string{"x", "y"}): gen.Pick(r, []string{"1", "2"})}})
		case 4:
			ms = append(ms, poolMember{Kind: "null", Field: gen.Pick(r, []string{"query", "operationName", "variables", "extensions"})})
		case 5, 6:
			ms = append(ms, poolMember{Kind: "wrongtype", Field: gen.Pick(r, []string{"operationName", "variables", "extensions"})})
		case 7:
			ms = append(ms, poolMember{Kind: "unknown"})
		case 8:
			ms = append(ms, poolMember{Kind: "syntax"})
		}
	}
	for i := len(ms) - 1; i > 0; i-- {
		j := r.Intn(i + 1)
		ms[i], ms[j] = ms[j], ms[i]
	}
	return ms
}

type paramView struct {
	Query, OpName string
	Vars, Exts    map[string]string
}

func (v *paramView) coq() string {
	if v == nil {
		return "None"
	}
	kv := func(m map[string]string) string {
		keys := make([]string, 0, len(m))
		for k := range m {
			keys = append(keys, k)
		}
		sort.Strings(keys)
		var out []string
		for _, k := range keys {
			out = append(out, fmt.Sprintf("(%s, %s)", gen.Str(k), gen.Str(m[k])))
		}
		return gen.List(out)
	}
	return fmt.Sprintf("(Some {| v_query := %s; v_opname := %s; v_vars := %s; v_exts := %s |})", gen.Str(v.Query), gen.Str(v.OpName), kv(v.Vars), kv(v.Exts))
}

// snoop records what the executor is handed
type snoop struct{ last **paramView }

func (snoop) ExtensionName() string                          { return "snoop" }
func (snoop) Validate(schema graphql.ExecutableSchema) error { return nil }
func (s snoop) MutateOperationParameters(ctx context.Context, p *graphql.RawParams) *gqlerror.Error {
	str := func(m map[string]any) map[string]string {
		out := map[string]string{}
		for k, v := range m {
			out[k] = fmt.Sprint(v)
		}
		return out
	}
	*s.last = &paramView{Query: p.Query, OpName: p.OperationName, Vars: str(p.Variables), Exts: str(p.Extensions)}
	return nil
}

func poolServer(last **paramView) *handler.Server {
	es := &graphql.ExecutableSchemaMock{
		SchemaFunc: func() *ast.Schema { return schema },
		ComplexityFunc: func(ctx context.Context, typeName, fieldName string, childComplexity int, args map[string]any) (int, bool) {
			return 0, false
		},
		ExecFunc: func(ctx context.Context) graphql.ResponseHandler {
			return graphql.OneShot(&graphql.Response{Data: []byte(`{"a":1}`)})
		},
	}
	srv := handler.New(es)
	srv.AddTransport(transport.POST{})
	srv.Use(snoop{last})
	return srv
}

func poolSend(srv *handler.Server, last **paramView, body string) *paramView {
	*last = nil
	req := httptest.NewRequest("POST", "/query", strings.NewReader(body))
	req.Header.Set("Content-Type", "application/json")
	srv.ServeHTTP(httptest.NewRecorder(), req)
	return *last
}

type poolDescr struct {
	Bodies []string     `json:"bodies"`
	Seen   []*paramView `json:"handed_to_the_executor"`
	Alone  []*paramView `json:"same_body_alone_on_a_fresh_server"`
}

// poolHistories sends histories of JSON bodies through one server and records what the executor was handed.
func poolHistories(c *gen.Ctx, prop string, r *gen.Rand, meta *gen.Meta) error {
	cf := &gen.CaseFile{Dir: c.OutDir, Prop: prop, Kind: "pool", Requires: []string{"Base.Prelude", "Model.ParamPool", "Corr.Corr_Pool"}, Type: "pool_case",
		Checks: []gen.Check{{Label: "corr", Fn: "pool_corr"}, {Label: strings.ToLower(prop), Fn: "pool_mon"}, {Label: "monmodel", Fn: "pool_monmodel"}}, Shard: 300}
	n := 120
	if c.Thorough() {
		n = 3000
	}
	var descr []any
	refused, seen := 0, 0
	for i := 0; i < n; i++ {
		var last *paramView
		srv := poolServer(&last)
		var hist, obs, alone []string
		d := poolDescr{}
		for j := 1 + r.Intn(5); j > 0; j-- {
			ms := genPoolBody(r)
			body := renderBody(ms)
			var terms []string
			for _, m := range ms {
				terms = append(terms, m.coq())
			}
			hist = append(hist, fmt.Sprintf("(\"h\"%%string, %s)", gen.List(terms)))
			v := poolSend(srv, &last, body)
			obs = append(obs, v.coq())
			var last2 *paramView
			v2 := poolSend(poolServer(&last2), &last2, body)
			alone = append(alone, v2.coq())
			d.Bodies, d.Seen, d.Alone = append(d.Bodies, body), append(d.Seen, v), append(d.Alone, v2)
			if v == nil {
				refused++
			} else {
				seen++
			}
		}
		cf.Add(fmt.Sprintf("{| pc_hist := %s; pc_obs := %s; pc_alone := %s |}", gen.List(hist), gen.List(obs), gen.List(alone)))
		descr = append(descr, d)
	}
	if err := meta.AddCaseFile(cf, descr); err != nil {
		return err
	}
	if meta.Distribution == nil {
		meta.Distribution = map[string]any{}
	}
	meta.Distribution["pool_histories"] = map[string]int{"histories": n, "requests_handed_to_the_executor": seen, "requests_refused_as_undecodable": refused}
	return nil
}

// flightSnoop records what the executor is handed per request (several requests are in flight at once; the request is
// recognised by a marker in its context).
type flightSnoop struct {
	mu   *sync.Mutex
	seen map[int]*paramView
}

func (flightSnoop) ExtensionName() string                          { return "flightsnoop" }
func (flightSnoop) Validate(schema graphql.ExecutableSchema) error { return nil }
func (s flightSnoop) MutateOperationParameters(ctx context.Context, p *graphql.RawParams) *gqlerror.Error {
	str := func(m map[string]any) map[string]string {
		out := map[string]string{}
		for k, v := range m {
			out[k] = fmt.Sprint(v)
		}
		return out
	}
	if k, ok := ctx.Value(ctxKey("flight")).(int); ok {
		v := &paramView{Query: p.Query, OpName: p.OperationName, Vars: str(p.Variables), Exts: str(p.Extensions)}
		s.mu.Lock()
		s.seen[k] = v
		s.mu.Unlock()
	}
	return nil
}

// inFlightBatches: batches of generated bodies sent to ONE server at once (the POST transport's pooled parameter
// objects are handed from request to request while others are still using theirs): what each request's executor is
// handed must be what the model of the pool with requests in flight gives (Model.PoolConc) and what a fresh server
// gives the body alone.
func inFlightBatches(c *gen.Ctx, prop string, r *gen.Rand, meta *gen.Meta) error {
	cf := &gen.CaseFile{Dir: c.OutDir, Prop: prop, Kind: "flight", Requires: []string{"Base.Prelude", "Model.ParamPool", "Model.PoolConc", "Corr.Corr_Pool"}, Type: "pool_case",
		Checks: []gen.Check{{Label: "corr", Fn: "flight_corr"}, {Label: strings.ToLower(prop), Fn: "pool_mon"}, {Label: "monmodel", Fn: "flight_monmodel"}}, Shard: 300}
	n := 150
	if c.Thorough() {
		n = 3000
	}
	var descr []any
	for i := 0; i < n; i++ {
		sn := flightSnoop{mu: &sync.Mutex{}, seen: map[int]*paramView{}}
		es := &graphql.ExecutableSchemaMock{
			SchemaFunc: func() *ast.Schema { return schema },
			ComplexityFunc: func(ctx context.Context, typeName, fieldName string, childComplexity int, args map[string]any) (int, bool) {
				return 0, false
			},
			ExecFunc: func(ctx context.Context) graphql.ResponseHandler {
				return graphql.OneShot(&graphql.Response{Data: []byte(`{"a":1}`)})
			},
		}
		srv := handler.New(es)
		srv.AddTransport(transport.POST{})
		srv.Use(sn)
		// warm the pool, so that objects are handed on rather than all freshly allocated
		for w := 0; w < 2; w++ {
			req := httptest.NewRequest("POST", "/query", strings.NewReader(`{"query":"{ a }","operationName":"W","variables":{"w":"1"},"extensions":{"w":"2"}}`))
			req.Header.Set("Content-Type", "application/json")
			srv.ServeHTTP(httptest.NewRecorder(), req)
		}
		k := 4 + r.Intn(7)
		bodies := make([]string, k)
		var hist, alone []string
		d := poolDescr{}
		for j := 0; j < k; j++ {
			ms := genPoolBody(r)
			bodies[j] = renderBody(ms)
			var terms []string
			for _, m := range ms {
				terms = append(terms, m.coq())
			}
			hist = append(hist, fmt.Sprintf("(\"h\"%%string, %s)", gen.List(terms)))
			var last2 *paramView
			v2 := poolSend(poolServer(&last2), &last2, bodies[j])
			alone = append(alone, v2.coq())
			d.Bodies, d.Alone = append(d.Bodies, bodies[j]), append(d.Alone, v2)
		}
		start := make(chan struct{})
		var wg sync.WaitGroup
		for j := 0; j < k; j++ {
			wg.Add(1)
			go func(j int) {
				defer wg.Done()
				req := httptest.NewRequest("POST", "/query", strings.NewReader(bodies[j]))
				req.Header.Set("Content-Type", "application/json")
				req = req.WithContext(context.WithValue(req.Context(), ctxKey("flight"), j))
				<-start
				srv.ServeHTTP(httptest.NewRecorder(), req)
			}(j)
		}
		close(start)
		wg.Wait()
		var obs []string
		for j := 0; j < k; j++ {
			obs = append(obs, sn.seen[j].coq())
			d.Seen = append(d.Seen, sn.seen[j])
		}
		cf.Add(fmt.Sprintf("{| pc_hist := %s; pc_obs := %s; pc_alone := %s |}", gen.List(hist), gen.List(obs), gen.List(alone)))
		descr = append(descr, d)
	}
	if err := meta.AddCaseFile(cf, descr); err != nil {
		return err
	}
	meta.Notes = append(meta.Notes, fmt.Sprintf("%d batches of 4..10 generated POST bodies sent at once to one server whose parameter pool was warmed with a request carrying every member: what each executor is handed is compared with the pool model with requests in flight (Model.PoolConc) and with a fresh server", n))
	return nil
}
