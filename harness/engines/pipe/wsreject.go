package pipe

import (
	"context"
	"encoding/json"
	"fmt"
	"net/http"
	"net/http/httptest"
	"strings"
	"sync"
	"time"

	"github.com/gorilla/websocket"
	"github.com/vektah/gqlparser/v2"
	"github.com/vektah/gqlparser/v2/ast"
	"github.com/vektah/gqlparser/v2/gqlerror"

	"github.com/99designs/gqlgen/graphql"
	"github.com/99designs/gqlgen/graphql/handler"
	"github.com/99designs/gqlgen/graphql/handler/transport"

	"verifharness/gen"
)

// wsGate: an extension with every hook; it refuses operations named RefuseParam in MutateOperationParameters and
// operations named RefuseCtx in MutateOperationContext, and records every later hook it sees.
type wsGate struct {
	mu   *sync.Mutex
	seen *[]string
}

func (wsGate) ExtensionName() string                          { return "Gate" }
func (wsGate) Validate(schema graphql.ExecutableSchema) error { return nil }
func (g wsGate) note(s string) {
	g.mu.Lock()
	*g.seen = append(*g.seen, s)
	g.mu.Unlock()
}
func (g wsGate) MutateOperationParameters(ctx context.Context, p *graphql.RawParams) *gqlerror.Error {
	if p.OperationName == "RefuseParam" {
		return gqlerror.Errorf("refused before parsing")
	}
	return nil
}
func (g wsGate) MutateOperationContext(ctx context.Context, oc *graphql.OperationContext) *gqlerror.Error {
	if oc.OperationName == "RefuseCtx" {
		return gqlerror.Errorf("refused after validation")
	}
	return nil
}
func (g wsGate) InterceptOperation(ctx context.Context, next graphql.OperationHandler) graphql.ResponseHandler {
	g.note("operation interceptor(" + graphql.GetOperationContext(ctx).OperationName + ")")
	return next(ctx)
}

// websocketRejections (C03): the gates hold in front of the websocket transport too.  An operation that an extension
// refuses (before parsing / after validation), an unparsable one, an invalid one, one whose operation name is
// unknown and one with an ill-typed variable are each answered with an error for their id and nothing else: no
// operation interceptor, no executor (the error response itself does pass the response interceptors), and the operation after them on the same connection runs normally.
func websocketRejections(meta *gen.Meta) int {
	n := 0
	type refused struct{ name, payload string }
	ops := []refused{
		{"refused by MutateOperationParameters", `{"query":"query RefuseParam { a }","operationName":"RefuseParam"}`},
		{"refused by MutateOperationContext", `{"query":"query RefuseCtx { a }","operationName":"RefuseCtx"}`},
		{"refused by MutateOperationContext (subscription)", `{"query":"subscription RefuseCtx { s }","operationName":"RefuseCtx"}`},
		{"does not parse", `{"query":"query Q { a "}`},
		{"does not validate", `{"query":"query Q { nosuch }"}`},
		{"unknown operation name", `{"query":"query Q { a }","operationName":"Other"}`},
		{"ill-typed variable", `{"query":"query Q($x: Int!) { f(x: $x) }","variables":{"x":"s"}}`},
	}
	for _, proto := range []string{"graphql-ws", "graphql-transport-ws"} {
		for _, op := range ops {
			n++
			var mu sync.Mutex
			var seen []string
			es := &graphql.ExecutableSchemaMock{
				SchemaFunc:     func() *ast.Schema { return wsRejectSchema },
				ComplexityFunc: func(ctx context.Context, t, f string, c int, a map[string]any) (int, bool) { return 0, false },
				ExecFunc: func(ctx context.Context) graphql.ResponseHandler {
					name := graphql.GetOperationContext(ctx).OperationName
					mu.Lock()
					seen = append(seen, "executor("+name+")")
					mu.Unlock()
					k := 0
					return func(ctx context.Context) *graphql.Response {
						k++
						if k > 1 {
							return nil
						}
						return &graphql.Response{Data: json.RawMessage(`{"a":1}`)}
					}
				},
			}
			srv := handler.New(es)
			srv.AddTransport(transport.Websocket{Upgrader: websocket.Upgrader{CheckOrigin: func(r *http.Request) bool { return true }}})
			srv.Use(wsGate{&mu, &seen})
			ts := httptest.NewServer(srv)
			conn, _, err := (&websocket.Dialer{Subprotocols: []string{proto}}).Dial("ws"+strings.TrimPrefix(ts.URL, "http"), nil)
			if err != nil {
				ts.Close()
				continue
			}
			start := "start"
			if proto == "graphql-transport-ws" {
				start = "subscribe"
			}
			send := func(s string) { _ = conn.WriteMessage(websocket.TextMessage, []byte(s)) }
			frames := map[string][]string{}
			read := func(until func() bool, d time.Duration) {
				_ = conn.SetReadDeadline(time.Now().Add(d))
				for !until() {
					_, b, err := conn.ReadMessage()
					if err != nil {
						return
					}
					var f struct {
						Type    string          `json:"type"`
						ID      string          `json:"id"`
						Payload json.RawMessage `json:"payload"`
					}
					if json.Unmarshal(b, &f) != nil || f.ID == "" {
						continue
					}
					frames[f.ID] = append(frames[f.ID], f.Type+" "+string(f.Payload))
				}
			}
			has := func(id, typ string) bool {
				for _, f := range frames[id] {
					if strings.HasPrefix(f, typ+" ") {
						return true
					}
				}
				return false
			}
			send(`{"type":"connection_init"}`)
			send(fmt.Sprintf(`{"type":%q,"id":"r","payload":%s}`, start, op.payload))
			// the next operation goes out at once (a read that times out would end the gorilla connection): frames arrive
			// in order, so everything about r has been seen - and every hook it could reach has run - once ok completes
			send(fmt.Sprintf(`{"type":%q,"id":"ok","payload":{"query":"query Fine { a }","operationName":"Fine"}}`, start))
			read(func() bool { return has("ok", "complete") }, 10*time.Second)
			mu.Lock()
			var seenAfterRefusal []string
			for _, h := range seen {
				if h != "operation interceptor(Fine)" && h != "executor(Fine)" {
					seenAfterRefusal = append(seenAfterRefusal, h)
				}
			}
			mu.Unlock()
			conn.Close()
			ts.Close()
			problem := ""
			dataFrames := 0
			for _, f := range frames["r"] {
				if strings.HasPrefix(f, "data ") || strings.HasPrefix(f, "next ") {
					if !strings.Contains(f, `"errors"`) || strings.Contains(f, `"data":{`) {
						dataFrames++
					}
				}
			}
			switch {
			case len(seenAfterRefusal) > 0:
				problem = fmt.Sprintf("the refused operation reached %v", seenAfterRefusal)
			case dataFrames > 0:
				problem = "the refused operation was answered with data"
			case !has("r", "error") && !strings.Contains(strings.Join(frames["r"], " "), `"errors"`):
				problem = "no error for the refused operation"
			case !has("ok", "complete") || !strings.Contains(strings.Join(frames["ok"], " "), `{"a":1}`):
				problem = "the operation after the refused one was not answered"
			}
			if problem != "" {
				meta.Direct = append(meta.Direct, gen.DirectFinding{Signature: "websocket-refused-operation-not-stopped",
					What:   fmt.Sprintf("websocket (%s), an operation that %s: %s; frames for its id %v, hooks seen %v", proto, op.name, problem, frames["r"], seenAfterRefusal),
					Replay: map[string]any{"subprotocol": proto, "refused": op.name, "payload": op.payload, "frames": frames}})
			}
		}
	}
	return n
}

var wsRejectSchema = mustSchema(`type Query { a: Int f(x: Int!): Int } type Subscription { s: Int }`)

func mustSchema(sdl string) *ast.Schema {
	return gqlparser.MustLoadSchema(&ast.Source{Name: "ws.graphql", Input: sdl})
}
