package pipe

import (
	"context"
	"encoding/json"
	"fmt"
	"net/http/httptest"
	"strings"

	"github.com/vektah/gqlparser/v2"
	"github.com/vektah/gqlparser/v2/ast"

	"github.com/99designs/gqlgen/graphql"
	"github.com/99designs/gqlgen/graphql/handler"
	"github.com/99designs/gqlgen/graphql/handler/extension"
	"github.com/99designs/gqlgen/graphql/handler/lru"
	"github.com/99designs/gqlgen/graphql/handler/transport"

	"verifharness/gen"
)

// complexityFreshOracle: a server with a query cache AND a complexity limit whose cost function reads an argument:
// the same query text is sent again and again with different variables (and operation names).  Whatever was
// answered before, each request must be answered exactly as a freshly built server answers it alone - the cost of
// one request's variables must not be remembered for the next.
func complexityFreshOracle(r *gen.Rand, meta *gen.Meta) int {
	cschema := gqlparser.MustLoadSchema(&ast.Source{Input: `type Query { items(n: Int!, tag: String): Int  a: Int }`})
	mk := func(cache string) *handler.Server {
		es := &graphql.ExecutableSchemaMock{
			SchemaFunc: func() *ast.Schema { return cschema },
			ComplexityFunc: func(ctx context.Context, typeName, fieldName string, childComplexity int, args map[string]any) (int, bool) {
				if typeName == "Query" && fieldName == "items" {
					switch n := args["n"].(type) {
					case int64:
						return childComplexity + int(n), true
					case int:
						return childComplexity + n, true
					}
				}
				return 0, false
			},
			ExecFunc: func(ctx context.Context) graphql.ResponseHandler {
				oc := graphql.GetOperationContext(ctx)
				b, _ := json.Marshal(map[string]any{"op": oc.OperationName, "vars": oc.Variables})
				return graphql.OneShot(&graphql.Response{Data: b})
			},
		}
		srv := handler.New(es)
		srv.AddTransport(transport.POST{})
		switch cache {
		case "lru":
			srv.SetQueryCache(lru.New[*ast.QueryDocument](8))
		case "map":
			srv.SetQueryCache(graphql.MapCache[*ast.QueryDocument]{})
		}
		srv.Use(extension.FixedComplexityLimit(10))
		return srv
	}
	texts := []string{
		`query Q($n: Int!) { items(n: $n) }`,
		`query Q($n: Int!) { items(n: $n) } query R($n: Int!) { a items(n: $n, tag: "r") }`,
		`query Q($n: Int! = 2) { items(n: $n) a }`,
	}
	type rq struct {
		Text string         `json:"query"`
		Op   string         `json:"operationName,omitempty"`
		Vars map[string]any `json:"variables,omitempty"`
	}
	send := func(srv *handler.Server, q rq) string {
		b, _ := json.Marshal(q)
		req := httptest.NewRequest("POST", "/query", strings.NewReader(string(b)))
		req.Header.Set("Content-Type", "application/json")
		rec := httptest.NewRecorder()
		srv.ServeHTTP(rec, req)
		return fmt.Sprintf("%d %s", rec.Code, rec.Body.String())
	}
	n := 0
	rounds := 40
	for round := 0; round < rounds; round++ {
		cache := []string{"lru", "map", "none"}[round%3]
		srv := mk(cache)
		var hist []rq
		k := 3 + r.Intn(5)
		text := texts[round%len(texts)]
		for j := 0; j < k; j++ {
			q := rq{Text: text, Op: "Q"}
			if strings.Contains(text, "query R") && r.Bool() {
				q.Op = "R"
			}
			switch {
			case round < 2 && j < 2:
				q.Vars = map[string]any{"n": []int{1, 50}[(j+round)%2]} // cheap then expensive, and the reverse
			case strings.Contains(text, "= 2") && r.Chance(1, 3):
				q.Vars = nil
			default:
				q.Vars = map[string]any{"n": gen.Pick(r, []int{1, 3, 9, 10, 11, 50})}
			}
			if r.Chance(1, 5) {
				q.Text = gen.Pick(r, texts)
			}
			hist = append(hist, q)
			got := send(srv, q)
			want := send(mk(cache), q)
			n++
			if got != want {
				meta.Direct = append(meta.Direct, gen.DirectFinding{Signature: "complexity-verdict-depends-on-earlier-requests",
					What:   fmt.Sprintf("a server with a %s query cache and a complexity limit of 10 whose cost function reads the argument n: request %d of the history %v was answered %s, a freshly built server answers it %s", cache, j+1, hist, got, want),
					Replay: map[string]any{"cache": cache, "history": hist}})
				break
			}
		}
	}
	return n
}
