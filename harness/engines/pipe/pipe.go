// Package pipe runs request histories against a real handler.Server (real executor and transports, an
// instrumented ExecutableSchema and instrumented extensions) and prints them for Corr_Pipeline, which
// serves C03, C07, C09 and the transport part of C10.
package pipe

import (
	"bytes"
	"context"
	"encoding/json"
	"fmt"
	"mime"
	"mime/multipart"
	"net/http"
	"net/http/httptest"
	"net/url"
	"strings"

	"github.com/vektah/gqlparser/v2"
	"github.com/vektah/gqlparser/v2/ast"
	"github.com/vektah/gqlparser/v2/parser"
	"github.com/vektah/gqlparser/v2/validator"

	"github.com/99designs/gqlgen/graphql"
	"github.com/99designs/gqlgen/graphql/handler"
	"github.com/99designs/gqlgen/graphql/handler/lru"
	"github.com/99designs/gqlgen/graphql/handler/transport"

	"verifharness/gen"
)

var schema = gqlparser.MustLoadSchema(&ast.Source{Name: "pipe.graphql", Input: `
type Query { a: Int b: Int c(x: Int!): Int o: Obj i(in: In): Int }
type Obj { f: Int }
input In { k: Int }
type Mutation { m: Int n: Int }
type Subscription { s: Int }
`})

// docText is the pool of query texts: valid ones and systematically invalidated variants.
var docTexts = []string{
	"{ a }",
	"query Q { a b }",
	"query A { a } query B { b a }",
	"mutation M { m }",
	"query Q { a } mutation M { m n }",
	"subscription S { s }",
	"query V($x: Int!) { c(x: $x) }",
	"{ a ",                        // does not parse
	"",                            // no operation
	"{ zzz }",                     // unknown field
	"{ c(x: \"str\") }",           // wrong argument type
	"{ ...F }",                    // missing fragment
	"{ a } { b }",                 // two anonymous operations
	"fragment F on Query { a }",   // no operation, only a fragment
	"query Q { a } query Q { b }", // duplicate operation name
	"mutation M { zzz }",
	// one document per validation rule of gqlparser, invalid under (essentially) that rule only
	"{ a { x } }",           // ScalarLeafs: selection on a scalar
	"{ o }",                 // ScalarLeafs: object without selection
	"{ ... on Int { a } }",  // FragmentsOnCompositeTypes
	"{ a(zz: 1) }",          // KnownArgumentNames
	"{ a @nope }",           // KnownDirectives
	"{ ... on Nope { a } }", // KnownTypeNames
	"{ __schema { types { fields { type { fields { type { fields { type { fields { name } } } } } } } } } }", // MaxIntrospectionDepth
	"{ ...A } fragment A on Query { ...B } fragment B on Query { ...A }",                                     // NoFragmentCycles
	"{ c(x: $u) }",                           // NoUndefinedVariables
	"{ a } fragment U on Query { b }",        // NoUnusedFragments
	"query W($u: Int) { a }",                 // NoUnusedVariables
	"{ k: a k: b }",                          // OverlappingFieldsCanBeMerged
	"{ ... on Mutation { m } }",              // PossibleFragmentSpreads
	"{ c }",                                  // ProvidedRequiredArguments
	"subscription T { s t: s }",              // SingleFieldSubscriptions
	"{ c(x: 1, x: 2) }",                      // UniqueArgumentNames
	"{ a @skip(if: true) @skip(if: false) }", // UniqueDirectivesPerLocation
	"{ ...F } fragment F on Query { a } fragment F on Query { b }", // UniqueFragmentNames
	"{ i(in: {k: 1, k: 2}) }",                                      // UniqueInputFieldNames
	"query W($v: Int!, $v: Int!) { c(x: $v) }",                     // UniqueVariableNames
	"{ c(x: 1.5) }",                  // ValuesOfCorrectType
	"query W($v: Obj) { i(in: $v) }", // VariablesAreInputTypes
	"query W($v: Int) { c(x: $v) }",  // VariablesInAllowedPosition
	"{ o { f } i(in: {k: 1}) }",      // valid, uses the object and the input type
	// texts that differ only in white space the lexer cares about (the end of a comment)
	"{ a # tail\n}", // valid
	"{ a # tail }",  // the comment swallows the closing brace: does not parse
	"{ a # zzz\n}",  // valid
	"{ a #\nzzz }",  // selects the unknown field zzz
}

type docInfo struct {
	Text   string
	Parses bool
	Valid  bool
	Ops    []opInfo
	NeedsX bool
}
type opInfo struct {
	Name   string
	Kind   string
	Fields []string
}

func classify(text string) docInfo { return classifyLimit(text, 0) }

// classifyLimit: what gqlparser says about the text when the parser may read at most limit tokens (0: no limit) -
// a text that exceeds the limit does not parse.
func classifyLimit(text string, limit int) docInfo {
	d := docInfo{Text: text}
	doc, err := parser.ParseQueryWithTokenLimit(&ast.Source{Input: text}, limit)
	if err != nil {
		return d
	}
	d.Parses = true
	if errs := validator.Validate(schema, doc); len(errs) == 0 {
		d.Valid = true
	}
	for _, op := range doc.Operations {
		o := opInfo{Name: op.Name, Kind: string(op.Operation)}
		for _, s := range op.SelectionSet {
			if f, ok := s.(*ast.Field); ok {
				o.Fields = append(o.Fields, f.Alias)
			}
		}
		d.Ops = append(d.Ops, o)
		if len(op.VariableDefinitions) > 0 {
			d.NeedsX = true
		}
	}
	return d
}

func (d docInfo) coq() string {
	var ops []string
	for _, o := range d.Ops {
		kind := map[string]string{"query": "KQuery", "mutation": "KMutation", "subscription": "KSubscription"}[o.Kind]
		var fs []string
		for _, f := range o.Fields {
			fs = append(fs, gen.Str(f))
		}
		ops = append(ops, fmt.Sprintf("{| o_name := %s; o_kind := %s; o_fields := %s |}", gen.Str(o.Name), kind, gen.List(fs)))
	}
	return fmt.Sprintf("{| d_parses := %s; d_valid := %s; d_ops := %s |}", b(d.Parses), b(d.Valid), gen.List(ops))
}

type serverCfg struct {
	Exts       []extSpec `json:"exts"`
	Cache      string    `json:"cache"` // none | map | lruK
	CacheK     int       `json:"cache_k"`
	Transports []string  `json:"transports"`
	Hdr        string    `json:"hdr"` // none | ct | noct
	NoSuggest  bool      `json:"disable_suggestion"`
	TokenLimit int       `json:"parser_token_limit,omitempty"`
}

type server struct {
	srv      *handler.Server
	rec      *recorder
	recovers int
}

func respHeaders(hdr string, lower bool) map[string][]string {
	switch hdr {
	case "ct":
		if lower {
			return map[string][]string{"content-type": {"application/x-custom"}}
		}
		return map[string][]string{"Content-Type": {"application/x-custom"}}
	case "noct":
		return map[string][]string{"X-Foo": {"bar"}}
	}
	return nil
}

func newServer(cfg serverCfg) *server {
	s := &server{rec: &recorder{}}
	es := &graphql.ExecutableSchemaMock{
		SchemaFunc:     func() *ast.Schema { return schema },
		ComplexityFunc: func(ctx context.Context, t, f string, c int, a map[string]any) (int, bool) { return 0, false },
		ExecFunc: func(ctx context.Context) graphql.ResponseHandler {
			s.rec.add("EvExec")
			opCtx := graphql.GetOperationContext(ctx)
			done := false
			return func(ctx context.Context) *graphql.Response {
				if done {
					return nil
				}
				done = true
				var buf bytes.Buffer
				buf.WriteString("{")
				for i, sel := range opCtx.Operation.SelectionSet {
					f, ok := sel.(*ast.Field)
					if !ok {
						continue
					}
					if i > 0 {
						buf.WriteString(",")
					}
					fctx := context.WithValue(ctx, ctxKey("field"), f.Alias)
					m := opCtx.RootResolverMiddleware(fctx, func(ctx context.Context) graphql.Marshaler {
						_, _ = opCtx.ResolverMiddleware(ctx, func(ctx context.Context) (any, error) {
							s.rec.add("EvResolver %s", gen.Str(f.Alias))
							return 1, nil
						})
						return graphql.MarshalInt(1)
					})
					fmt.Fprintf(&buf, "%q:", f.Alias)
					m.MarshalGQL(&buf)
				}
				buf.WriteString("}")
				return &graphql.Response{Data: buf.Bytes()}
			}
		},
	}
	srv := handler.New(es)
	lower := len(cfg.Exts)%2 == 1
	for _, t := range cfg.Transports {
		h := respHeaders(cfg.Hdr, lower)
		switch t {
		case "options":
			srv.AddTransport(transport.Options{})
		case "get":
			srv.AddTransport(transport.GET{ResponseHeaders: h})
		case "post":
			srv.AddTransport(transport.POST{ResponseHeaders: h})
		case "graphql":
			srv.AddTransport(transport.GRAPHQL{ResponseHeaders: h})
		case "form":
			srv.AddTransport(transport.UrlEncodedForm{ResponseHeaders: h})
		case "multipart":
			srv.AddTransport(transport.MultipartForm{ResponseHeaders: h})
		}
	}
	switch cfg.Cache {
	case "map":
		srv.SetQueryCache(graphql.MapCache[*ast.QueryDocument]{})
	case "lru":
		srv.SetQueryCache(lru.New[*ast.QueryDocument](cfg.CacheK))
	}
	if cfg.NoSuggest {
		srv.SetDisableSuggestion(true)
	}
	if cfg.TokenLimit > 0 {
		srv.SetParserTokenLimit(cfg.TokenLimit)
	}
	srv.SetRecoverFunc(func(ctx context.Context, err any) error {
		s.recovers++
		return fmt.Errorf("internal system error")
	})
	for i, e := range cfg.Exts {
		srv.Use(e.make(i, &s.rec))
	}
	s.srv = srv
	return s
}

// rawReq is one HTTP request in abstract form; build() renders it.
type rawReq struct {
	Method      string         `json:"method"`
	Transport   string         `json:"via"` // get post graphql form formjson formenc multipart other
	ContentType string         `json:"content_type"`
	Upgrade     bool           `json:"upgrade"`
	Accept      *string        `json:"accept"`
	Doc         int            `json:"doc"`
	OpName      string         `json:"operation_name"`
	Vars        map[string]any `json:"variables"`
	Body        string         `json:"body_class"` // ok | bad | null | nonobject | badquerystring
	RejectParam int            `json:"reject_param"`
	RejectCtx   int            `json:"reject_ctx"`
	BadPart     string         `json:"bad_part,omitempty"` // GET with body class "bad": what is malformed - "" (the variables parameter) or a value for the extensions parameter
}

func (q rawReq) build(docs []docInfo) *http.Request {
	text := docs[q.Doc].Text
	var req *http.Request
	payload := map[string]any{"query": text}
	if q.OpName != "" {
		payload["operationName"] = q.OpName
	}
	if q.Vars != nil {
		payload["variables"] = q.Vars
	}
	jsonBody, _ := json.Marshal(payload)
	switch q.Transport {
	case "get":
		v := url.Values{}
		v.Set("query", text)
		if q.OpName != "" {
			v.Set("operationName", q.OpName)
		}
		if q.Vars != nil {
			vb, _ := json.Marshal(q.Vars)
			v.Set("variables", string(vb))
		}
		raw := v.Encode()
		switch q.Body {
		case "bad":
			if q.BadPart != "" {
				raw += "&extensions=" + url.QueryEscape(q.BadPart)
				break
			}
			raw += "&variables=%7Bbad"
			if q.Vars != nil {
				raw = strings.Replace(raw, "variables=", "variables=%7Bbad&x=", 1)
			}
		case "badquerystring":
			raw += "&x=%zz"
		}
		req = httptest.NewRequest(q.Method, "/query?"+raw, nil)
	case "post", "other":
		body := string(jsonBody)
		switch q.Body {
		case "bad":
			body = `{"query": `
		case "null":
			body = "null"
		case "nonobject":
			body = `["query"]`
		case "typeerror":
			// well-formed JSON whose last member has the wrong type: encoding/json has stored the members before it
			// when it reports the error
			name := q.OpName
			if name == "" {
				name = "Stale"
			}
			b, _ := json.Marshal(map[string]any{"query": text, "operationName": name})
			body = strings.TrimSuffix(string(b), "}") + `,"extensions":{"stale":{"k":1}},"variables":"oops"}`
		}
		req = httptest.NewRequest(q.Method, "/query", strings.NewReader(body))
	case "graphql":
		body := text
		if q.Body == "bad" {
			body = "%7B%zz"
		}
		req = httptest.NewRequest(q.Method, "/query", strings.NewReader(body))
	case "form":
		body := "query=" + text
		if q.Body == "bad" {
			body = "query=%7B%zz"
		}
		req = httptest.NewRequest(q.Method, "/query", strings.NewReader(body))
	case "formenc":
		body := "query=" + url.QueryEscape(text)
		req = httptest.NewRequest(q.Method, "/query", strings.NewReader(body))
	case "formjson":
		body := string(jsonBody)
		switch q.Body {
		case "bad":
			body = `{"query": `
		case "null":
			body = `null "query":`
		}
		req = httptest.NewRequest(q.Method, "/query", strings.NewReader(body))
	case "multipart":
		var buf bytes.Buffer
		mw := multipart.NewWriter(&buf)
		switch q.Body {
		case "bad":
			_ = mw.WriteField("operations", `{"query": `)
			_ = mw.WriteField("map", `{}`)
		case "nonobject":
			_ = mw.WriteField("map", `{}`)
			_ = mw.WriteField("operations", string(jsonBody))
		case "null":
			_ = mw.WriteField("operations", "null")
			_ = mw.WriteField("map", `{}`)
		default:
			_ = mw.WriteField("operations", string(jsonBody))
			_ = mw.WriteField("map", `{}`)
		}
		mw.Close()
		req = httptest.NewRequest(q.Method, "/query", &buf)
		if q.ContentType == "multipart/form-data" {
			req.Header.Set("Content-Type", mw.FormDataContentType())
		}
	}
	if q.ContentType != "" && req.Header.Get("Content-Type") == "" {
		req.Header.Set("Content-Type", q.ContentType)
	}
	if q.Upgrade {
		req.Header.Set("Upgrade", "websocket")
	}
	if q.Accept != nil {
		req.Header.Set("Accept", *q.Accept)
	}
	ctx := req.Context()
	if q.RejectParam >= 0 {
		ctx = context.WithValue(ctx, rejectParamKey, q.RejectParam)
	}
	if q.RejectCtx >= 0 {
		ctx = context.WithValue(ctx, rejectCtxKey, q.RejectCtx)
	}
	return req.WithContext(ctx)
}

func classifyMedia(ct string) string {
	if ct == "" {
		return "CtUnparsable"
	}
	m, _, err := mime.ParseMediaType(ct)
	if err != nil {
		return "CtUnparsable"
	}
	switch m {
	case "application/json":
		return "CtJson"
	case "application/graphql":
		return "CtGraphql"
	case "application/x-www-form-urlencoded":
		return "CtForm"
	case "multipart/form-data":
		return "CtMultipartForm"
	}
	return "CtOther"
}

func classifyAccept(a *string) string {
	if a == nil || *a == "" {
		return "None"
	}
	var parts []string
	for _, p := range strings.Split(*a, ",") {
		m, _, err := mime.ParseMediaType(strings.TrimSpace(p))
		switch {
		case err != nil:
			parts = append(parts, "AOtherPart")
		case m == "*/*" || m == "application/*":
			parts = append(parts, "AStar")
		case m == "application/json":
			parts = append(parts, "AJson")
		case m == "application/graphql-response+json":
			parts = append(parts, "AGqlResp")
		default:
			parts = append(parts, "AOtherPart")
		}
	}
	return "(Some " + gen.List(parts) + ")"
}

// varsOK: does validator.VariableValues accept what this request carries for its document?
func (q rawReq) varsOK(docs []docInfo) bool {
	d := docs[q.Doc]
	if !d.Parses {
		return true
	}
	doc, _ := parser.ParseQuery(&ast.Source{Input: d.Text})
	if !d.Valid {
		return true
	}
	op := doc.Operations.ForName(q.effectiveOpName())
	if op == nil {
		return true
	}
	// the validated document is needed for VariableValues
	vdoc, errs := gqlparser.LoadQuery(schema, d.Text)
	if errs != nil {
		return true
	}
	_, err := validator.VariableValues(schema, vdoc.Operations.ForName(q.effectiveOpName()), q.effectiveVars())
	return err == nil
}

// crossGet: a body-transport request (JSON, application/graphql, urlencoded, multipart) sent with the GET method: only
// the GET transport may take it, and that one reads the URL query, which is empty
func (q rawReq) crossGet() bool { return q.Method == "GET" && q.Transport != "get" }

func (q rawReq) carriesEnvelope() bool {
	if q.crossGet() {
		return false
	}
	switch q.Transport {
	case "graphql", "form", "formenc":
		return false
	}
	return true
}
func (q rawReq) effectiveOpName() string {
	if q.carriesEnvelope() && q.Body != "null" {
		return q.OpName
	}
	return ""
}
func (q rawReq) effectiveVars() map[string]any {
	if q.carriesEnvelope() && q.Body != "null" {
		return q.Vars
	}
	return nil
}

func (q rawReq) coq(docs []docInfo, emptyDoc int) string {
	method := map[string]string{"GET": "MGet", "POST": "MPost", "PUT": "MPut", "HEAD": "MHead", "OPTIONS": "MOptions"}[q.Method]
	ct := q.ContentType
	bodyOK := q.Body == "ok" || q.Body == "null" || q.Body == "badquerystring"
	qsOK := q.Body != "badquerystring"
	doc := q.Doc
	if q.Body == "null" || q.crossGet() {
		doc = emptyDoc // a null body decodes to an empty request; so does the empty URL query of a GET that carries a body
	}
	if q.Body == "nonobject" && q.Transport == "multipart" {
		bodyOK = false // parts in the wrong order
	}
	opt := func(i int) string {
		if i < 0 {
			return "None"
		}
		return fmt.Sprintf("(Some %d%%nat)", i)
	}
	vq := q
	vq.Doc = doc
	if q.crossGet() {
		vq.Vars = nil
	}
	return fmt.Sprintf("{| w_method := %s; w_media := %s; w_upgrade := %s; w_accept := %s; w_body_ok := %s; w_query_string_ok := %s; w_req := {| r_q := %d%%nat; r_opname := %s; r_vars_ok := %s; r_reject_param := %s; r_reject_ctx := %s |} |}",
		method, classifyMedia(ct), b(q.Upgrade), classifyAccept(q.Accept), b(bodyOK), b(qsOK), doc, gen.Str(q.effectiveOpName()), b(vq.varsOK(docs)), opt(q.RejectParam), opt(q.RejectCtx))
}

type obsResp struct {
	Status   int      `json:"status"`
	Events   []string `json:"events"`
	HasData  bool     `json:"has_data"`
	JSONOK   bool     `json:"json_ok"`
	CType    string   `json:"content_type"`
	Recovers int      `json:"recover_calls"`
	Fresh    bool     `json:"fresh_same"`
	Body     string   `json:"body"`
	Crash    string   `json:"crash,omitempty"`
}

func ctypeCoq(ct string) string {
	m, _, _ := mime.ParseMediaType(ct)
	switch {
	case ct == "":
		return "OutMissing"
	case m == "application/json":
		return "OutJson"
	case m == "application/graphql-response+json":
		return "OutGqlResp"
	case m == "application/x-custom":
		return "OutConfigured"
	}
	return "OutMissing" // anything else (e.g. sniffed text/plain) counts as not the negotiated type
}

func (o obsResp) coq() string {
	return fmt.Sprintf("{| ob_status := %d%%nat; ob_events := %s; ob_has_data := %s; ob_json_ok := %s; ob_ctype := %s; ob_recover := %d%%nat; ob_fresh_same := %s |}",
		o.Status, gen.List(o.Events), b(o.HasData), b(o.JSONOK), ctypeCoq(o.CType), o.Recovers, b(o.Fresh))
}

func (s *server) do(req *http.Request) (o obsResp) {
	s.rec = &recorder{}
	s.recovers = 0
	w := httptest.NewRecorder()
	func() {
		defer func() {
			if r := recover(); r != nil {
				o.Crash = fmt.Sprint(r)
			}
		}()
		s.srv.ServeHTTP(w, req)
	}()
	o.Status = w.Code
	if o.Crash != "" {
		o.Status = 0
	}
	o.Events = s.rec.events
	o.Recovers = s.recovers
	o.CType = w.Header().Get("Content-Type")
	o.Body = w.Body.String()
	if len(w.Body.Bytes()) == 0 {
		o.JSONOK = req.Method == "OPTIONS" || req.Method == "HEAD"
	} else {
		var resp map[string]json.RawMessage
		if err := json.Unmarshal(w.Body.Bytes(), &resp); err == nil {
			_, hasErr := resp["errors"]
			data, hasData := resp["data"]
			o.HasData = hasData && string(data) != "null"
			o.JSONOK = hasErr || hasData
		}
	}
	return o
}

func same(a, b obsResp) bool {
	return a.Status == b.Status && a.CType == b.CType && a.Body == b.Body
}

type histCase struct {
	Cfg  serverCfg `json:"server"`
	Reqs []rawReq  `json:"requests"`
	Obs  []obsResp `json:"observed"`
	Sig  string    `json:"sig,omitempty"`
}

var acceptPool = []*string{nil, sp(""), sp("application/json"), sp("application/graphql-response+json"), sp("*/*"), sp("application/*"), sp("text/html"),
	sp("text/html, application/json;q=0.9"), sp("garbage;;;, application/json"), sp("application/graphql-response+json; charset=utf-8, application/json"),
	sp("text/*, image/png"), sp("APPLICATION/JSON"), sp(" application/json , */*")}

func sp(s string) *string { return &s }

var defaultTransports = []string{"options", "get", "post", "graphql", "form", "multipart"}
var transportOrders = [][]string{
	defaultTransports,
	{"post", "get", "options"},
	{"get", "post"},
	{"post"},
	{"multipart", "form", "graphql", "post", "get", "options"},
	{"options", "graphql", "form"},
}

func randReq(r *gen.Rand, docs []docInfo, nExts int, malformedRate int) rawReq {
	q := rawReq{Method: "POST", Transport: "post", ContentType: "application/json", Doc: r.Intn(len(docs)), Body: "ok", RejectParam: -1, RejectCtx: -1}
	switch r.Intn(12) {
	case 0, 1, 2:
		q.Method, q.Transport, q.ContentType = "GET", "get", ""
	case 3:
		q.Transport, q.ContentType = "graphql", "application/graphql"
	case 4:
		q.Transport, q.ContentType = gen.Pick(r, []string{"form", "formenc", "formjson"}), "application/x-www-form-urlencoded"
	case 5:
		q.Transport, q.ContentType = "multipart", "multipart/form-data"
	case 6:
		// routing oddities
		switch r.Intn(6) {
		case 0:
			q.Method = "PUT"
		case 1:
			q.ContentType = "text/plain"
			q.Transport = "other"
		case 2:
			q.ContentType = ""
			q.Transport = "other"
		case 3:
			q.Upgrade = true
		case 4:
			q.Method, q.Transport, q.ContentType = "OPTIONS", "get", ""
		case 5:
			q.Method, q.Transport, q.ContentType = "HEAD", "get", ""
		}
	case 7:
		q.ContentType = "application/json; charset=utf-8"
	}
	if q.Transport == "formenc" && !strings.HasPrefix(docs[q.Doc].Text, "{") {
		q.Transport = "form" // the urlencoded branch is only taken for bodies starting with query=%7B
	}
	if (q.Transport == "form" || q.Transport == "formenc") && strings.Contains(docs[q.Doc].Text, "\"") {
		q.Doc = 0
	}
	d := docs[q.Doc]
	// operationName: absent, each operation, unknown
	switch k := r.Intn(4); {
	case k == 0 && len(d.Ops) > 0:
		q.OpName = gen.Pick(r, d.Ops).Name
	case k == 1:
		q.OpName = "Unknown"
	}
	if d.NeedsX {
		switch r.Intn(3) {
		case 0:
			q.Vars = map[string]any{"x": 1}
		case 1:
			q.Vars = map[string]any{"x": "s"}
		}
	} else if r.Chance(1, 8) {
		q.Vars = map[string]any{}
	}
	q.Accept = gen.Pick(r, acceptPool)
	if r.Intn(100) < malformedRate {
		switch q.Transport {
		case "get":
			q.Body = gen.Pick(r, []string{"bad", "badquerystring"})
			if q.Body == "bad" && r.Bool() {
				q.BadPart = gen.Pick(r, []string{"notjson", "[1]", `"x"`, "1", `{"persistedQuery":`})
			}
		case "post", "formjson":
			q.Body = gen.Pick(r, []string{"bad", "null", "nonobject", "typeerror"})
			if q.Transport == "formjson" && q.Body == "typeerror" {
				q.Body = "bad"
			}
			if q.Transport == "formjson" && q.Body == "nonobject" {
				q.Body = "bad"
			}
		case "multipart":
			q.Body = gen.Pick(r, []string{"bad", "null", "nonobject"})
		case "graphql", "form":
			q.Body = "bad"
		}
	}
	if q.Method == "POST" && q.Transport != "other" && !q.Upgrade && r.Chance(1, 10) {
		// the same body and Content-Type, sent as a GET
		q.Method, q.Body = "GET", "ok"
	}
	if nExts > 0 && r.Chance(1, 8) {
		q.RejectParam = r.Intn(nExts)
	}
	if nExts > 0 && r.Chance(1, 8) {
		q.RejectCtx = r.Intn(nExts)
	}
	return q
}

// RunAs returns the engine entry point for one of the properties this engine serves.
func RunAs(prop string) func(*gen.Ctx) error {
	return func(c *gen.Ctx) error {
		meta := &gen.Meta{Property: prop}
		n, err := Generate(c, prop, gen.NewRand(c.Seed), meta)
		if err != nil {
			return err
		}
		if prop == "C03" {
			if err := concurrentFirstRequests(c, gen.NewRand(c.Seed+55), meta); err != nil {
				return err
			}
			nwr := websocketRejections(meta)
			meta.Notes = append(meta.Notes, fmt.Sprintf("%d websocket sessions (both subprotocols) whose first operation is refused (by either mutator hook of an extension, by the parser, the validator, operation selection, variable coercion): an error for its id, no interceptor, no executor, the next operation on the connection runs", nwr))
		}
		if prop == "C07" || prop == "C09" {
			if err := poolHistories(c, prop, gen.NewRand(c.Seed+99), meta); err != nil {
				return err
			}
		}
		if prop == "C07" {
			if err := inFlightBatches(c, prop, gen.NewRand(c.Seed+41), meta); err != nil {
				return err
			}
			concurrentFresh(c, gen.NewRand(c.Seed+31), meta)
			nws := websocketBeside(meta)
			meta.Notes = append(meta.Notes, fmt.Sprintf("%d websocket sessions (both subprotocols) in which a query is answered beside a running stream on the same connection: the frames under each id must be those the operation gets alone on a fresh server", nws))
			nh := apqFreshOracle(meta)
			meta.Notes = append(meta.Notes, fmt.Sprintf("%d request histories (every history up to length 3 over text / text+own hash / text+another text's hash / hash only x two texts) against a server with the APQ extension: a request that carries its text must be answered as by a fresh server", nh))
			ncx := complexityFreshOracle(gen.NewRand(c.Seed+63), meta)
			meta.Notes = append(meta.Notes, fmt.Sprintf("%d requests in histories that send one query text again and again with different variables to a server with a query cache and a complexity limit whose cost function reads an argument: each answered as by a fresh server", ncx))
			k := 300
			if c.Thorough() {
				k = 5000
			}
			audited := astAudit(gen.NewRand(c.Seed+77), k, meta)
			meta.Notes = append(meta.Notes, fmt.Sprintf("%d operations collected twice over every possible object type with the parsed document compared before and after, spare slice capacity included (the document is what the query cache shares between requests)", audited))
		}
		meta.Evaluations = n
		return meta.Write(c.OutDir)
	}
}

// plannedHistory is a pinned history: every body transport's request shape sent with the GET method (and the plain
// GET after it), under every registration order of the transports - only transport.GET may take a GET, whatever
// is registered before it.
type plannedHistory struct {
	transports []string
	reqs       []rawReq
	cache      string // "", or the cache kind the history needs
}

func crossingPlans(docs []docInfo) []plannedHistory {
	mut, qry := -1, -1
	for i, d := range docs {
		if !d.Valid || strings.Contains(d.Text, "\"") || d.NeedsX || len(d.Ops) != 1 {
			continue
		}
		if d.Ops[0].Kind == "mutation" && mut < 0 {
			mut = i
		}
		if d.Ops[0].Kind == "query" && qry < 0 && strings.HasPrefix(d.Text, "{") {
			qry = i
		}
	}
	if mut < 0 || qry < 0 {
		return nil
	}
	orders := append([][]string{}, transportOrders...)
	orders = append(orders, []string{"form", "get", "post"}, []string{"graphql", "get"}, []string{"multipart", "post", "get"}, []string{"post", "form", "graphql", "multipart", "get"})
	cts := map[string]string{"post": "application/json", "graphql": "application/graphql", "form": "application/x-www-form-urlencoded",
		"formjson": "application/x-www-form-urlencoded", "multipart": "multipart/form-data"}
	var out []plannedHistory
	for _, o := range orders {
		for _, via := range []string{"post", "graphql", "form", "formjson", "multipart"} {
			mk := func(doc int, method string) rawReq {
				return rawReq{Method: method, Transport: via, ContentType: cts[via], Doc: doc, Body: "ok", RejectParam: -1, RejectCtx: -1}
			}
			out = append(out, plannedHistory{o, []rawReq{mk(mut, "GET"), mk(qry, "GET"), mk(mut, "POST"),
				{Method: "GET", Transport: "get", Doc: mut, Body: "ok", RejectParam: -1, RejectCtx: -1},
				{Method: "GET", Transport: "get", Doc: qry, Body: "ok", RejectParam: -1, RejectCtx: -1}}, ""})
		}
	}
	// a valid text first, then its sibling that differs only in lexically significant white space (and the other
	// way round), with a parsed-document cache: the sibling must be parsed and validated on its own
	idx := func(text string) int {
		for i, d := range docs {
			if d.Text == text {
				return i
			}
		}
		return -1
	}
	post := func(doc int) rawReq {
		return rawReq{Method: "POST", Transport: "post", ContentType: "application/json", Doc: doc, Body: "ok", RejectParam: -1, RejectCtx: -1}
	}
	for _, pair := range [][2]string{{"{ a # tail\n}", "{ a # tail }"}, {"{ a # zzz\n}", "{ a #\nzzz }"}} {
		v, w := idx(pair[0]), idx(pair[1])
		if v < 0 || w < 0 {
			continue
		}
		for _, cache := range []string{"map", "lru"} {
			out = append(out, plannedHistory{defaultTransports, []rawReq{post(v), post(w), post(v)}, cache},
				plannedHistory{defaultTransports, []rawReq{post(w), post(v), post(w)}, cache})
		}
	}
	return out
}

// Generate runs the histories and adds the case file to meta; returns the number of requests.
func Generate(c *gen.Ctx, prop string, r *gen.Rand, meta *gen.Meta) (int, error) {
	var docs []docInfo
	emptyDoc := 0
	for i, t := range docTexts {
		docs = append(docs, classify(t))
		if t == "" {
			emptyDoc = i
		}
	}
	var docTerms []string
	for _, d := range docs {
		docTerms = append(docTerms, d.coq())
	}
	cf := &gen.CaseFile{Dir: c.OutDir, Prop: prop, Kind: "hist", Requires: []string{"Base.Prelude", "Model.Pipeline", "Corr.Corr_Pipeline"}, Type: "pipe_case",
		Checks: []gen.Check{{Label: "corr", Fn: "pipe_corr"}, {Label: "c03", Fn: "c03_monitor"}, {Label: "c07", Fn: "c07_monitor"},
			{Label: "c09", Fn: "c09_monitor"}, {Label: "c10", Fn: "c10_monitor"}, {Label: "monmodel", Fn: "monitors_on_model"}}, Shard: 60}
	n := 360
	if c.Thorough() {
		n = 4000
	}
	var descr []any
	stats := map[string]int{}
	statuses := map[int]int{}
	distinct := map[string]bool{}
	nreq := 0
	plans := crossingPlans(docs)
	n += len(plans)
	for i := 0; i < n; i++ {
		cfg := serverCfg{Transports: gen.Pick(r, transportOrders), Hdr: gen.Pick(r, []string{"none", "none", "ct", "noct"})}
		if r.Chance(2, 3) {
			cfg.Transports = defaultTransports
		}
		var plan *plannedHistory
		if i < len(plans) {
			plan = &plans[i]
			cfg.Transports = plan.transports
		}
		for k := r.Intn(5); k > 0; k-- {
			cfg.Exts = append(cfg.Exts, gen.Pick(r, extKinds))
		}
		switch r.Intn(4) {
		case 0:
			cfg.Cache = "none"
		case 1:
			cfg.Cache = "map"
		default:
			cfg.Cache, cfg.CacheK = "lru", 1+r.Intn(3)
		}
		cfg.NoSuggest = r.Chance(1, 4)
		if plan != nil && plan.cache != "" {
			cfg.Cache, cfg.CacheK = plan.cache, 3
		}
		// a parser token limit: texts with more tokens do not parse on this server (and are classified accordingly)
		ldocs, ldocsTerm := docs, "docs"
		if plan == nil && (i%6 == 5 || r.Chance(1, 10)) {
			cfg.TokenLimit = 3 + r.Intn(14)
			ldocs = nil
			var ts []string
			for _, t := range docTexts {
				d := classifyLimit(t, cfg.TokenLimit)
				ldocs = append(ldocs, d)
				ts = append(ts, d.coq())
			}
			ldocsTerm = gen.List(ts)
			stats["servers_with_parser_token_limit"]++
		}
		srv := newServer(cfg)
		hlen := 1 + r.Intn(8)
		if plan != nil {
			hlen = len(plan.reqs)
		}
		malformed := 10
		if i%3 == 0 {
			malformed = 45 // a separate, mostly-malformed stream
		}
		var reqs []rawReq
		var obs []obsResp
		var reqTerms, obsTerms []string
		sig := ""
		for j := 0; j < hlen; j++ {
			q := randReq(r, docs, len(cfg.Exts), malformed)
			if plan != nil {
				q = plan.reqs[j]
			} else if j > 0 && r.Chance(1, 3) {
				// same query text again with a different operationName / variables / transport (cache and pool reuse)
				prev := reqs[r.Intn(len(reqs))]
				q.Doc = prev.Doc
				if len(docs[q.Doc].Ops) > 0 && r.Bool() {
					q.OpName = gen.Pick(r, docs[q.Doc].Ops).Name
				}
				if (q.Transport == "form" || q.Transport == "formenc") && (strings.Contains(docs[q.Doc].Text, "\"") || !strings.HasPrefix(docs[q.Doc].Text, "{")) {
					q.Transport = "form"
					if strings.Contains(docs[q.Doc].Text, "\"") {
						q.Doc = 0
					}
				}
			}
			o := srv.do(q.build(docs))
			fresh := newServer(cfg).do(q.build(docs))
			o.Fresh = same(o, fresh)
			reqs = append(reqs, q)
			obs = append(obs, o)
			reqTerms = append(reqTerms, q.coq(ldocs, emptyDoc))
			if cfg.TokenLimit > 0 && docs[q.Doc].Parses && !ldocs[q.Doc].Parses {
				stats["requests_over_the_token_limit"]++
			}
			obsTerms = append(obsTerms, o.coq())
			stats["via_"+q.Transport]++
			stats["body_"+q.Body]++
			statuses[o.Status]++
			if o.Recovers > 0 && q.Body == "null" {
				sig = "null-json-body-nil-deref"
			}
			if o.CType == "" && o.Body != "" {
				if sig == "" {
					sig = "json-error-body-without-content-type"
				}
			}
			nreq++
		}
		var exts []string
		for _, e := range cfg.Exts {
			exts = append(exts, e.coq())
		}
		cache := map[string]string{"none": "NoCache", "map": "MapCache", "lru": fmt.Sprintf("(LruCache %d%%nat)", cfg.CacheK)}[cfg.Cache]
		var ts []string
		for _, t := range cfg.Transports {
			ts = append(ts, map[string]string{"options": "ROptions", "get": "RT TGet", "post": "RT TPost", "graphql": "RT TGraphql", "form": "RT TUrlEncoded", "multipart": "RT TMultipartForm"}[t])
		}
		hdr := map[string]string{"none": "HdrNone", "ct": "HdrWithContentType", "noct": "HdrWithoutContentType"}[cfg.Hdr]
		cf.Add(fmt.Sprintf("{| pc_docs := %s; pc_exts := %s; pc_cache := %s; pc_transports := %s; pc_hdr := %s; pc_reqs := %s; pc_obs := %s |}",
			ldocsTerm, gen.List(exts), cache, gen.List(ts), hdr, gen.List(reqTerms), gen.List(obsTerms)))
		descr = append(descr, histCase{cfg, reqs, obs, sig})
		if hlen > 1 && len(cfg.Exts) > 0 {
			jb, _ := json.Marshal(struct {
				A serverCfg
				B []rawReq
			}{cfg, reqs})
			distinct[string(jb)] = true
		}
	}
	cf.Preamble = "Definition docs : list doc := " + gen.List(docTerms) + "."
	if err := meta.AddCaseFile(cf, descr); err != nil {
		return 0, err
	}
	meta.DistinctNontrivial += len(distinct)
	meta.Rule += "request histories (1..8 requests) against handler.New(mock ES)+real executor+real transports {OPTIONS,GET,POST,GRAPHQL,UrlEncodedForm,MultipartForm} in 6 orders x 0..4 instrumented extensions of 11 hook subsets x {NoCache,MapCache,LRU 1..3} x suggestions on/off x ResponseHeaders {none, with Content-Type, without}; documents: 7 valid and 9 systematically invalid texts; operationName absent/each/unknown; variables ok/missing/ill-typed; 13 Accept headers; mutator rejections; a malformed stream (bad JSON, null, non-object, bad query string, bad escapes, wrong multipart order). evaluations = requests; distinct_nontrivial = distinct (server config, history) with >= 2 requests and >= 1 extension."
	meta.Samples = append(meta.Samples, descr[0], descr[len(descr)/2])
	if meta.Distribution == nil {
		meta.Distribution = map[string]any{}
	}
	meta.Distribution["histories"] = n
	meta.Distribution["requests"] = nreq
	meta.Distribution["by_transport_and_body"] = stats
	meta.Distribution["statuses"] = statuses
	return nreq, nil
}
