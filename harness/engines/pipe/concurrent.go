package pipe

import (
	"context"
	"encoding/json"
	"fmt"
	"net/http/httptest"
	"sort"
	"strings"
	"sync"

	"github.com/vektah/gqlparser/v2/ast"
	"github.com/vektah/gqlparser/v2/gqlerror"
	"github.com/vektah/gqlparser/v2/validator"
	"github.com/vektah/gqlparser/v2/validator/rules"

	"github.com/99designs/gqlgen/graphql"
	"github.com/99designs/gqlgen/graphql/handler"
	"github.com/99designs/gqlgen/graphql/handler/transport"

	"verifharness/gen"
)

type swapReq struct {
	Disable bool   `json:"executor_has_suggestions_disabled"`
	Doc     string `json:"document"` // valid | unknown-field | other-invalid
}

type swapCase struct {
	Reqs     []swapReq `json:"requests_sent_at_once"`
	Rejected []bool    `json:"rejected"`
	Reached  []string  `json:"reached,omitempty"`
}

var swapDocs = map[string]string{"valid": `{ a }`, "unknown-field": `{ nosuch }`, "other-invalid": `{ a { x } }`, "gated": "{ a } #gate"}

// swapGate refuses requests whose query text carries the marker (an OperationParameterMutator, as a user would
// write an authentication or allow-list extension).
type swapGate struct{}

func (swapGate) ExtensionName() string                          { return "swapgate" }
func (swapGate) Validate(schema graphql.ExecutableSchema) error { return nil }
func (swapGate) MutateOperationParameters(ctx context.Context, p *graphql.RawParams) *gqlerror.Error {
	if strings.Contains(p.Query, "#gate") {
		return gqlerror.Errorf("refused by the gate")
	}
	return nil
}

func (c swapCase) coq() string {
	var rq, ob []string
	for _, r := range c.Reqs {
		d := map[string]string{"valid": "DValid", "unknown-field": "DUnknownField", "other-invalid": "DOtherInvalid", "gated": "DGated"}[r.Doc]
		rq = append(rq, fmt.Sprintf("(%s, %s)", gen.Bool(r.Disable), d))
	}
	for _, b := range c.Rejected {
		ob = append(ob, gen.Bool(b))
	}
	return fmt.Sprintf("{| sw_reqs := %s; sw_rejected := %s |}", gen.List(rq), gen.List(ob))
}

// freshProcessRules puts gqlparser's process-global rule set into the state it has when a process starts: the rule
// with suggestions registered, the variant without them not.
func freshProcessRules() {
	validator.RemoveRule(rules.FieldsOnCorrectTypeRuleWithoutSuggestions.Name)
	validator.RemoveRule(rules.FieldsOnCorrectTypeRule.Name)
	validator.AddRule(rules.FieldsOnCorrectTypeRule.Name, rules.FieldsOnCorrectTypeRule.RuleFunc)
}

// concurrentFirstRequests: the first requests of a process, sent at once to an executor with suggestions disabled
// and one with suggestions enabled.  Whatever the schedule, a document that fails validation must be answered 422 with
// errors only and reach neither an operation interceptor nor the executable schema.
func concurrentFirstRequests(c *gen.Ctx, r *gen.Rand, meta *gen.Meta) error {
	rounds := 30000
	if c.Thorough() {
		rounds = 400000
	}
	cf := &gen.CaseFile{Dir: c.OutDir, Prop: "C03", Kind: "swap", Requires: []string{"Base.Prelude", "Model.RuleSwap", "Corr.Corr_Swap"}, Type: "swap_case",
		Checks: []gen.Check{{Label: "corr", Fn: "swap_corr"}, {Label: "c03", Fn: "swap_mon"}, {Label: "monmodel", Fn: "swap_monmodel"}}, Shard: 200}
	var descr []any
	defer freshProcessRules()
	failures := 0
	kinds := []string{"valid", "valid", "unknown-field", "unknown-field", "other-invalid", "gated", "gated"}
	type srvT struct {
		srv     *handler.Server
		mu      sync.Mutex
		reached map[int][]string
	}
	hookFailures := 0
	for round := 0; round < rounds; round++ {
		freshProcessRules()
		mk := func(disable bool) *srvT {
			s := &srvT{reached: map[int][]string{}}
			note := func(ctx context.Context, what string) {
				if k, ok := ctx.Value(ctxKey("swapreq")).(int); ok {
					s.mu.Lock()
					s.reached[k] = append(s.reached[k], what)
					s.mu.Unlock()
				}
			}
			es := &graphql.ExecutableSchemaMock{
				SchemaFunc:     func() *ast.Schema { return schema },
				ComplexityFunc: func(ctx context.Context, t, f string, c int, a map[string]any) (int, bool) { return 0, false },
				ExecFunc: func(ctx context.Context) graphql.ResponseHandler {
					note(ctx, "executable schema")
					return graphql.OneShot(&graphql.Response{Data: []byte(`{}`)})
				},
			}
			s.srv = handler.New(es)
			s.srv.AddTransport(transport.POST{})
			s.srv.Use(swapGate{})
			s.srv.AroundOperations(func(ctx context.Context, next graphql.OperationHandler) graphql.ResponseHandler {
				note(ctx, "operation interceptor")
				return next(ctx)
			})
			s.srv.AroundResponses(func(ctx context.Context, next graphql.ResponseHandler) *graphql.Response {
				note(ctx, "response interceptor")
				return next(ctx)
			})
			if disable {
				s.srv.SetDisableSuggestion(true)
			}
			return s
		}
		servers := map[bool]*srvT{true: mk(true), false: mk(false)}
		n := 2 + r.Intn(7)
		cs := swapCase{Reqs: make([]swapReq, n), Rejected: make([]bool, n)}
		for i := range cs.Reqs {
			cs.Reqs[i] = swapReq{Disable: r.Intn(4) != 0, Doc: gen.Pick(r, kinds)}
		}
		cs.Reqs[0].Disable = true
		codes := make([]int, n)
		bodies := make([]string, n)
		start := make(chan struct{})
		var wg sync.WaitGroup
		for i := range cs.Reqs {
			wg.Add(1)
			go func(i int) {
				defer wg.Done()
				rq := cs.Reqs[i]
				req := httptest.NewRequest("POST", "/", strings.NewReader(fmt.Sprintf(`{"query":%q}`, swapDocs[rq.Doc])))
				req.Header.Set("Content-Type", "application/json")
				req = req.WithContext(context.WithValue(req.Context(), ctxKey("swapreq"), i))
				w := httptest.NewRecorder()
				<-start
				servers[rq.Disable].srv.ServeHTTP(w, req)
				codes[i], bodies[i] = w.Code, w.Body.String()
			}(i)
		}
		close(start)
		wg.Wait()
		bad := false
		for i, rq := range cs.Reqs {
			reached := servers[rq.Disable].reached[i]
			var body struct {
				Data   json.RawMessage   `json:"data"`
				Errors []json.RawMessage `json:"errors"`
			}
			_ = json.Unmarshal([]byte(bodies[i]), &body)
			errorsOnly := len(body.Errors) > 0 && (len(body.Data) == 0 || string(body.Data) == "null")
			onlyResponseHook := true // an errors-only answer still passes the response interceptors (DispatchError)
			for _, x := range reached {
				if x != "response interceptor" {
					onlyResponseHook = false
				}
			}
			// the status a fresh server answers each kind with: validation failures 422; an extension's plain error 200
			wantStatus := map[string]int{"valid": 200, "unknown-field": 422, "other-invalid": 422, "gated": 200}[rq.Doc]
			cs.Rejected[i] = codes[i] == wantStatus && onlyResponseHook && errorsOnly
			if rq.Doc != "valid" && !cs.Rejected[i] {
				bad = true
				cs.Reached = append(cs.Reached, fmt.Sprintf("request %d (%s): status %d, reached %v, body %s", i, rq.Doc, codes[i], reached, bodies[i]))
			}
			// hooks exactly once: an accepted request passes the operation interceptor, the executable schema and the
			// response interceptor once each; a refused one the response interceptor once
			want := []string{"response interceptor"}
			if rq.Doc == "valid" {
				want = []string{"operation interceptor", "response interceptor", "executable schema"}
			}
			got := append([]string{}, reached...)
			sort.Strings(got)
			sort.Strings(want)
			if strings.Join(got, ",") != strings.Join(want, ",") && !(rq.Doc != "valid" && !cs.Rejected[i]) {
				hookFailures++
				if hookFailures <= 3 {
					meta.Direct = append(meta.Direct, gen.DirectFinding{Signature: "hooks-not-exactly-once-under-concurrent-requests",
						What:   fmt.Sprintf("first requests of a process sent at once (round %d): request %d (%s, status %d) passed %v; alone it passes %v", round, i, rq.Doc, codes[i], got, want),
						Replay: cs})
				}
			}
		}
		if bad {
			failures++
			if failures <= 5 {
				meta.Direct = append(meta.Direct, gen.DirectFinding{Signature: "invalid-document-accepted-under-concurrent-requests",
					What:   fmt.Sprintf("first requests of a process sent at once (round %d): a document that fails validation was not refused: %s", round, strings.Join(cs.Reached, "; ")),
					Replay: cs})
			}
		}
		if round < 60 || (bad && failures <= 10) {
			cf.Add(cs.coq())
			descr = append(descr, cs)
		}
	}
	meta.Notes = append(meta.Notes, fmt.Sprintf("%d rounds of 2..8 first requests of a process sent at once to an executor with suggestions disabled and one with suggestions enabled (valid / unknown field / otherwise invalid documents / valid documents an operation-parameter extension refuses, behind an operation and a response interceptor; gqlparser's global rule set put back into its start-of-process state before each round): every refused request must be answered as a fresh server answers it (422 for a validation failure, 200 for the extension's error) with errors only and reach neither an operation interceptor nor the executable schema, and every request must pass each hook exactly as often as it does alone (%d requests did not); %d rounds failed; the first 60 rounds and the failing ones are cases for Model.RuleSwap", rounds, hookFailures, failures))
	return meta.AddCaseFile(cf, descr)
}
