package pipe

import (
	"context"
	"encoding/json"
	"fmt"
	"net/http"
	"net/http/httptest"
	"strings"
	"time"

	"github.com/gorilla/websocket"
	"github.com/vektah/gqlparser/v2/ast"

	"github.com/99designs/gqlgen/graphql"
	"github.com/99designs/gqlgen/graphql/handler"
	"github.com/99designs/gqlgen/graphql/handler/transport"

	"verifharness/gen"
)

// websocketBeside: "... or are in flight beside it on any transport".  Two operations share one websocket
// connection: a stream whose later results are produced only after a query beside it has been answered.  What the
// client receives under each id must be what it receives when that operation runs alone on a fresh server.
func websocketBeside(meta *gen.Meta) int {
	type frame struct {
		Type    string `json:"type"`
		Payload string `json:"payload,omitempty"`
	}
	run := func(proto string, ops []string) (map[string][]frame, error) {
		gate := make(chan struct{}, 8)
		es := &graphql.ExecutableSchemaMock{
			SchemaFunc:     func() *ast.Schema { return schema },
			ComplexityFunc: func(ctx context.Context, t, f string, c int, a map[string]any) (int, bool) { return 0, false },
			ExecFunc: func(ctx context.Context) graphql.ResponseHandler {
				name := graphql.GetOperationContext(ctx).OperationName
				k := 0
				return func(ctx context.Context) *graphql.Response {
					k++
					if name == "Quick" {
						if k > 1 {
							return nil
						}
						return &graphql.Response{Data: json.RawMessage(`{"b":7}`)}
					}
					if k > 3 {
						return nil
					}
					if k > 1 {
						select { // the stream's later results wait for the harness
						case <-gate:
						case <-ctx.Done():
							return nil
						}
					}
					return &graphql.Response{Data: json.RawMessage(fmt.Sprintf(`{"a":%d}`, k))}
				}
			},
		}
		srv := handler.New(es)
		srv.AddTransport(transport.Websocket{Upgrader: websocket.Upgrader{CheckOrigin: func(r *http.Request) bool { return true }}})
		ts := httptest.NewServer(srv)
		defer ts.Close()
		conn, _, err := (&websocket.Dialer{Subprotocols: []string{proto}}).Dial("ws"+strings.TrimPrefix(ts.URL, "http"), nil)
		if err != nil {
			return nil, err
		}
		defer conn.Close()
		start := "start"
		if proto == "graphql-transport-ws" {
			start = "subscribe"
		}
		send := func(s string) { _ = conn.WriteMessage(websocket.TextMessage, []byte(s)) }
		got := map[string][]frame{}
		completed := map[string]bool{}
		read := func(until func() bool) {
			_ = conn.SetReadDeadline(time.Now().Add(2 * time.Second))
			for !until() {
				_, b, err := conn.ReadMessage()
				if err != nil {
					return
				}
				var f struct {
					Type    string          `json:"type"`
					ID      string          `json:"id"`
					Payload json.RawMessage `json:"payload"`
				}
				if json.Unmarshal(b, &f) != nil || f.ID == "" {
					continue
				}
				got[f.ID] = append(got[f.ID], frame{f.Type, string(f.Payload)})
				if f.Type == "complete" {
					completed[f.ID] = true
				}
			}
		}
		send(`{"type":"connection_init"}`)
		for _, op := range ops {
			switch op {
			case "stream":
				send(fmt.Sprintf(`{"type":%q,"id":"stream","payload":{"query":"query Stream { a }","operationName":"Stream"}}`, start))
				read(func() bool { return len(got["stream"]) >= 1 })
			case "quick":
				send(fmt.Sprintf(`{"type":%q,"id":"quick","payload":{"query":"query Quick { b }","operationName":"Quick"}}`, start))
				read(func() bool { return completed["quick"] })
			}
		}
		gate <- struct{}{}
		gate <- struct{}{}
		for _, op := range ops {
			if op == "stream" {
				read(func() bool { return completed["stream"] })
			}
		}
		// anything that still arrives (a frame under the wrong id, a second completion)
		_ = conn.SetReadDeadline(time.Now().Add(30 * time.Millisecond))
		read(func() bool { return false })
		return got, nil
	}
	n := 0
	for _, proto := range []string{"graphql-ws", "graphql-transport-ws"} {
		n++
		aloneStream, err1 := run(proto, []string{"stream"})
		aloneQuick, err2 := run(proto, []string{"quick"})
		both, err3 := run(proto, []string{"stream", "quick"})
		if err1 != nil || err2 != nil || err3 != nil {
			continue
		}
		want := map[string][]frame{"stream": aloneStream["stream"], "quick": aloneQuick["quick"]}
		a, _ := json.Marshal(both)
		b, _ := json.Marshal(want)
		if string(a) != string(b) {
			meta.Direct = append(meta.Direct, gen.DirectFinding{Signature: "websocket-frames-differ-with-an-operation-beside",
				What:   fmt.Sprintf("websocket (%s): a stream of three results with a query answered beside it after the first result: the frames by id are %s; each operation alone on a fresh server gives %s", proto, a, b),
				Replay: map[string]any{"subprotocol": proto, "frames_by_id": both, "alone": want}})
		}
	}
	return n
}
