package c17

import (
	"fmt"
	"strings"

	"github.com/99designs/gqlgen/codegen/templates"

	"verifharness/gen"
)

// names the generator documents or explicitly handles: Go keywords and predeclared identifiers, initialisms,
// leading / trailing / embedded underscores, names that normalise to the same Go identifier
var fieldNames = []string{"type", "func", "range", "map", "select", "default", "go", "string", "int", "error", "nil", "true", "len", "any", "new",
	"id", "url", "userId", "user_id", "httpServer", "HTTPServer", "apiURL", "_leading", "trailing_", "a__b", "a_1_2", "x1", "camelCase", "snake_case_name", "UPPER"}
var argNames = []string{"type", "func", "var", "chan", "interface", "map", "range", "id", "_lead", "first_arg", "string", "len", "error", "nil"}
var typeNamePool = []string{"Thing", "user_profile", "UserProfile", "Userprofile", "HTTPRoute", "Http_route", "Node_", "X1", "Type", "Error", "String_", "Map", "Item", "item_2"}
var enumValuePool = []string{"FOO_BAR", "fooBar", "FooBar", "foo_bar", "A", "a", "TYPE", "type", "X_1", "X1", "_UNDER", "UNDER_"}

type sgen struct {
	r       *gen.Rand
	objs    []string
	ifaces  []string
	enums   []string
	inputs  []string
	unions  []string
	files   [2]strings.Builder
	feature map[string]int
}

// pickNames draws n names that stay distinct after normalisation (two fields or arguments of one type that
// normalise to one Go identifier are not among the patterns gqlgen handles; type names and enum values are, and
// are drawn with pickColliding).
func (g *sgen) pickNames(pool []string, n int) []string {
	seen := map[string]bool{}
	var out []string
	for tries := 0; len(out) < n && tries < 200; tries++ {
		x := gen.Pick(g.r, pool)
		k := strings.ToLower(templates.ToGo(x))
		if !seen[k] {
			seen[k] = true
			out = append(out, x)
		}
	}
	return out
}

func (g *sgen) pickColliding(pool []string, n int) []string {
	seen := map[string]bool{}
	var out []string
	for len(out) < n {
		x := gen.Pick(g.r, pool)
		if !seen[x] {
			seen[x] = true
			out = append(out, x)
		}
	}
	return out
}

func (g *sgen) outType() string {
	pool := append([]string{"String", "Int", "Boolean", "ID", "Float", "Custom"}, g.objs...)
	pool = append(pool, g.ifaces...)
	pool = append(pool, g.enums...)
	pool = append(pool, g.unions...)
	t := gen.Pick(g.r, pool)
	if g.r.Chance(1, 3) {
		t += "!"
	}
	for i := 0; i < []int{0, 0, 0, 1, 1, 2}[g.r.Intn(6)]; i++ {
		t = "[" + t + "]"
		if g.r.Chance(1, 3) {
			t += "!"
		}
	}
	return t
}

func (g *sgen) inType() (string, string) {
	pool := append([]string{"String", "Int", "Boolean", "ID", "Float"}, g.enums...)
	pool = append(pool, g.inputs...)
	base := gen.Pick(g.r, pool)
	lit := map[string]string{"String": `"s"`, "Int": "3", "Boolean": "true", "ID": `"i"`, "Float": "1.5"}[base]
	t := base
	depth := []int{0, 0, 1}[g.r.Intn(3)]
	for i := 0; i < depth; i++ {
		t = "[" + t + "]"
		if lit != "" {
			lit = "[" + lit + "]"
		}
	}
	return t, lit
}

func (g *sgen) fields(b *strings.Builder, n int, withArgs bool, inline ...bool) []string {
	names := g.pickNames(fieldNames, n)
	for _, f := range names {
		args := ""
		if withArgs && g.r.Chance(1, 3) {
			var as []string
			for _, a := range g.pickNames(argNames, 1+g.r.Intn(3)) {
				t, lit := g.inType()
				def := ""
				if lit != "" && g.r.Chance(1, 3) {
					def = " = " + lit
					g.feature["arg_default"]++
				}
				as = append(as, fmt.Sprintf("%s: %s%s", a, t, def))
			}
			args = "(" + strings.Join(as, ", ") + ")"
		}
		dir := ""
		if g.r.Chance(1, 6) {
			dir = ` @tag(name: "x")`
			g.feature["field_directive"]++
		}
		if g.r.Chance(1, 8) {
			dir += " @deprecated"
		}
		if len(inline) > 0 && inline[0] {
			// the documented inline configuration directives
			switch g.r.Intn(12) {
			case 0, 1:
				dir += " @goField(forceResolver: true)"
				g.feature["goField_forceResolver"]++
			case 2:
				dir += ` @goTag(key: "yaml", value: "y")`
				g.feature["goTag"]++
			case 3:
				dir += ` @goField(name: "Renamed` + templates.ToGo(f) + `")`
				g.feature["goField_name"]++
			}
		}
		fmt.Fprintf(b, "  %s%s: %s%s\n", f, args, g.outType(), dir)
	}
	return names
}

// Generate returns the schema files of one random project.
func Generate(r *gen.Rand) (map[string]string, map[string]int) {
	g := &sgen{r: r, feature: map[string]int{}}
	tn := g.pickNames(typeNamePool, 3+r.Intn(4))
	g.objs = tn[:2+r.Intn(len(tn)-2)]
	rest := tn[len(g.objs):]
	if len(rest) > 0 {
		g.ifaces = rest[:1]
		rest = rest[1:]
	}
	g.enums = []string{"Color"}
	if len(rest) > 0 {
		g.enums = append(g.enums, rest[0]+"Enum")
		rest = rest[1:]
	}
	g.inputs = []string{"Filter"}
	if len(rest) > 0 {
		g.inputs = append(g.inputs, rest[0]+"Input")
	}
	if r.Bool() {
		g.unions = []string{"AnyThing"}
	}
	a, b := &g.files[0], &g.files[1]
	a.WriteString("directive @tag(name: String, weight: Int = 1) on FIELD_DEFINITION | OBJECT | INPUT_FIELD_DEFINITION | ARGUMENT_DEFINITION\nscalar Custom\n" +
		"directive @goModel(model: String, models: [String!], forceGenerate: Boolean) on OBJECT | INPUT_OBJECT | SCALAR | ENUM | INTERFACE | UNION\n" +
		"directive @goField(forceResolver: Boolean, name: String, omittable: Boolean, type: String) on INPUT_FIELD_DEFINITION | FIELD_DEFINITION\n" +
		"directive @goTag(key: String!, value: String) on INPUT_FIELD_DEFINITION | FIELD_DEFINITION\n" +
		"directive @goExtraField(name: String, type: String!, overrideTags: String, description: String) repeatable on OBJECT | INPUT_OBJECT\n\n")
	for _, e := range g.enums {
		fmt.Fprintf(a, "enum %s {\n", e)
		for _, v := range g.pickColliding(enumValuePool, 2+r.Intn(5)) {
			fmt.Fprintf(a, "  %s\n", v)
		}
		a.WriteString("}\n\n")
		g.feature["enum_values_normalising_together"]++
	}
	for i, in := range g.inputs {
		fmt.Fprintf(a, "input %s {\n", in)
		for _, f := range g.pickNames(fieldNames, 1+r.Intn(4)) {
			pool := append([]string{"String", "Int", "Boolean", "ID"}, g.enums...)
			pool = append(pool, g.inputs[:i]...)
			t := gen.Pick(r, pool)
			def := ""
			if lit, ok := map[string]string{"String": `"d"`, "Int": "7", "Boolean": "false"}[t]; ok && r.Chance(1, 3) {
				def = " = " + lit
				g.feature["input_default"]++
			}
			if r.Chance(1, 4) {
				t = "[" + t + "!]"
				def = ""
			}
			fmt.Fprintf(a, "  %s: %s%s\n", f, t, def)
		}
		a.WriteString("}\n\n")
	}
	ifFields := map[string]string{}
	for _, in := range g.ifaces {
		var fb strings.Builder
		g.fields(&fb, 1+r.Intn(2), false)
		ifFields[in] = fb.String()
		fmt.Fprintf(a, "interface %s {\n%s}\n\n", in, fb.String())
	}
	for i, o := range g.objs {
		w := a
		if i%2 == 1 {
			w = b
		}
		impl := ""
		extra := ""
		if len(g.ifaces) > 0 && r.Chance(1, 2) {
			impl = " implements " + g.ifaces[0]
			extra = ifFields[g.ifaces[0]]
			g.feature["implements"]++
		}
		var fb strings.Builder
		g.fields(&fb, 1+r.Intn(4), true, true)
		// drop fields that the interface already declares (under any spelling that normalises to the same name)
		taken := map[string]bool{}
		for _, l := range strings.Split(extra, "\n") {
			name := strings.TrimSpace(strings.SplitN(strings.SplitN(l, ":", 2)[0], "(", 2)[0])
			if name != "" {
				taken[strings.ToLower(templates.ToGo(name))] = true
			}
		}
		var keep []string
		for _, l := range strings.Split(fb.String(), "\n") {
			name := strings.TrimSpace(strings.SplitN(strings.SplitN(l, ":", 2)[0], "(", 2)[0])
			if name == "" || taken[strings.ToLower(templates.ToGo(name))] {
				continue
			}
			keep = append(keep, l)
		}
		if len(keep) == 0 && extra == "" {
			keep = append(keep, "  only: Int")
		}
		tdir := ""
		if r.Chance(1, 6) {
			tdir = ` @goExtraField(name: "ExtraInfo", type: "int")`
			g.feature["goExtraField"]++
		}
		fmt.Fprintf(w, "type %s%s%s {\n%s%s\n}\n\n", o, impl, tdir, extra, strings.Join(keep, "\n"))
	}
	for _, u := range g.unions {
		fmt.Fprintf(a, "union %s = %s\n\n", u, strings.Join(g.objs, " | "))
	}
	// object types that only a root field returns, non-null and never in a list (viewer: Viewer!, a mutation payload,
	// a subscription event)
	a.WriteString("type Query {\n")
	g.fields(a, 2+r.Intn(3), true)
	viewer := r.Bool()
	if viewer {
		a.WriteString("  the_viewer: ViewerOnly!\n")
		g.feature["type_returned_only_by_a_root_field"]++
	}
	a.WriteString("}\n\n")
	if viewer {
		a.WriteString("type ViewerOnly {\n  id: ID!\n  name: String!\n}\n\n")
	}
	if r.Bool() {
		b.WriteString("type Mutation {\n")
		g.fields(b, 1+r.Intn(2), true)
		payload := r.Bool()
		if payload {
			fmt.Fprintf(b, "  make_it(input: Filter): MadePayload!\n")
			g.feature["type_returned_only_by_a_root_field"]++
		}
		b.WriteString("}\n\n")
		if payload {
			fmt.Fprintf(b, "type MadePayload {\n  ok: Boolean!\n  made: %s\n}\n\n", g.objs[0])
		}
		g.feature["mutation"]++
	}
	if r.Chance(1, 3) {
		if r.Bool() {
			b.WriteString("type Subscription {\n  ticks(type: Int): Int\n  events: EventOnly!\n}\n\ntype EventOnly {\n  at: Int!\n}\n\n")
			g.feature["type_returned_only_by_a_root_field"]++
		} else {
			b.WriteString("type Subscription {\n  ticks(type: Int): Int\n}\n\n")
		}
		g.feature["subscription"]++
	}
	if r.Bool() {
		fmt.Fprintf(b, "extend type Query {\n  extended_field(func: String): %s\n}\n\n", g.objs[0])
		g.feature["extend_type"]++
	}
	out := map[string]string{"a.graphqls": a.String()}
	if b.Len() > 0 {
		out["sub/b.graphqls"] = b.String()
	}
	return out, g.feature
}
