package c17

// Documented schema idioms under the default configuration (no option set): what a user following the docs
// writes first.  Every one must generate, build and vet.
const defaultConfig = `schema:
  - "*.graphqls"
exec:
  filename: graph/generated.go
  package: graph
model:
  filename: graph/model/models_gen.go
  package: model
resolver:
  layout: follow-schema
  dir: graph
  package: graph
  filename_template: "{name}.resolvers.go"
`

const inlineDirectives = `directive @goModel(model: String, models: [String!], forceGenerate: Boolean) on OBJECT | INPUT_OBJECT | SCALAR | ENUM | INTERFACE | UNION
directive @goField(forceResolver: Boolean, name: String, omittable: Boolean, type: String) on INPUT_FIELD_DEFINITION | FIELD_DEFINITION
directive @goTag(key: String!, value: String) on INPUT_FIELD_DEFINITION | FIELD_DEFINITION
directive @goExtraField(name: String, type: String!, overrideTags: String, description: String) repeatable on OBJECT | INPUT_OBJECT
directive @goEnum(value: String) on ENUM_VALUE
`

func idiomProjects() []*sweepCase {
	mk := func(config, schema string) *sweepCase {
		return &sweepCase{Config: config, Schema: map[string]string{"schema.graphqls": schema}}
	}
	return []*sweepCase{
		// getting started, plus a type only a root field returns
		mk(defaultConfig, `type Todo { id: ID! text: String! done: Boolean! user: User! }
type User { id: ID! name: String! }
type Viewer { id: ID! name: String! }
input NewTodo { text: String! userId: String! }
type Query { todos: [Todo!]! viewer: Viewer! }
type Mutation { createTodo(input: NewTodo!): Todo! rename(id: ID!, name: String!): RenamePayload! }
type RenamePayload { ok: Boolean! }
type Subscription { todoAdded: TodoEvent! }
type TodoEvent { at: Int! }
`),
		// inline configuration directives
		mk(defaultConfig, inlineDirectives+`type User @goExtraField(name: "Activated", type: "bool") {
  id: ID! @goField(name: "UserIdent")
  name: String! @goTag(key: "xorm", value: "-") @goTag(key: "yaml")
  friends: [User!]! @goField(forceResolver: true)
  best: User @goField(forceResolver: true)
}
type Forced @goModel(forceGenerate: true) { a: Int }
input Patch { name: String @goField(omittable: true) age: Int }
type Query { user(id: ID!): User patch(p: Patch): Int forced: Forced }
`),
		// field configuration in gqlgen.yml only
		mk(defaultConfig+`models:
  Account:
    fields:
      owner:
        resolver: true
      balance:
        fieldName: Amount
    extraFields:
      Session:
        type: "int"
`, `type Account { id: ID! owner: Person! balance: Int! }
type Person { name: String! }
type Query { account: Account! }
`),
		// value-typed struct fields: cycles and self references between types whose Go names differ from their schema names
		mk(defaultConfig+"struct_fields_always_pointers: false\n", `type user_profile { self: user_profile! peer: Other_thing! name: String }
type Other_thing { back: user_profile! again: user_profile }
type Plain { self: Plain! other: Second! }
type Second { plain: Plain! }
type Query { u: user_profile p: Plain }
`),
		// interfaces implementing interfaces, unions, enums, nested inputs with defaults
		mk(defaultConfig, `interface Node { id: ID! }
interface Named implements Node { id: ID! name: String! }
type Cat implements Named & Node { id: ID! name: String! lives: Int! }
type Dog implements Named & Node { id: ID! name: String! owner: Cat }
union Pet = Cat | Dog
enum Size { SMALL LARGE }
input Inner { size: Size = SMALL tags: [String!] = ["a"] }
input Outer { inner: Inner! list: [Inner!] n: Int = 3 }
type Query { node(id: ID!): Node pets(filter: Outer): [Pet!]! named: Named! size(s: Size = LARGE): Size! }
`),
	}
}
