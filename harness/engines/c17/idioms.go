package c17

// Documented schema idioms under the default configuration (no option set): what a user following the docs
// writes first.  Every one must generate, build and vet.
const defaultConfig = `schema:
  - "*.graphqls"
exec:
  filename: graph/generated.go
  package: graph
model:
  filename: graph/model/models_gen.go
  package: model
resolver:
  layout: follow-schema
  dir: graph
  package: graph
  filename_template: "{name}.resolvers.go"
`

const inlineDirectives = `directive @goModel(model: String, models: [String!], forceGenerate: Boolean) on OBJECT | INPUT_OBJECT | SCALAR | ENUM | INTERFACE | UNION
directive @goField(forceResolver: Boolean, name: String, omittable: Boolean, type: String) on INPUT_FIELD_DEFINITION | FIELD_DEFINITION
directive @goTag(key: String!, value: String) on INPUT_FIELD_DEFINITION | FIELD_DEFINITION
directive @goExtraField(name: String, type: String!, overrideTags: String, description: String) repeatable on OBJECT | INPUT_OBJECT
directive @goEnum(value: String) on ENUM_VALUE
`

func idiomProjects() []*sweepCase {
	mk := func(config, schema string) *sweepCase {
		return &sweepCase{Config: config, Schema: map[string]string{"schema.graphqls": schema}}
	}
	// "no models": every type has a hand-written Go model, in two packages - one found through autobind, one named in
	// the type map - with the Go interface of a GraphQL interface in one and an implementor in the other
	handWritten := &sweepCase{Config: `schema:
  - "*.graphqls"
exec:
  filename: graph/generated.go
  package: graph
model:
  filename: graph/models_gen.go
  package: graph
resolver:
  layout: follow-schema
  dir: graph
  package: graph
autobind:
  - c17proj/shapes
models:
  Circle:
    model: c17proj/geo.Circle
omit_root_models: true
`, Schema: map[string]string{
		"schema.graphqls":  "interface Shape { id: ID! owner: Owner! }\ntype Owner { name: String! }\ntype Square implements Shape { id: ID! owner: Owner! side: Float! }\ntype Circle implements Shape { id: ID! owner: Owner! radius: Float! }\ntype Query { shapes: [Shape!]! }\n",
		"shapes/shapes.go": "package shapes\n\ntype Owner struct{ Name string }\n\ntype Shape interface {\n\tIsShape()\n\tGetID() string\n\tGetOwner() *Owner\n}\n\ntype Square struct {\n\tID    string\n\tOwner *Owner\n\tSide  float64\n}\n\nfunc (Square) IsShape()           {}\nfunc (s Square) GetID() string    { return s.ID }\nfunc (s Square) GetOwner() *Owner { return s.Owner }\n",
		"geo/geo.go":       "package geo\n\nimport \"c17proj/shapes\"\n\ntype Circle struct {\n\tID     string\n\tOwner  *shapes.Owner\n\tRadius float64\n}\n\nfunc (Circle) IsShape()                  {}\nfunc (c Circle) GetID() string           { return c.ID }\nfunc (c Circle) GetOwner() *shapes.Owner { return c.Owner }\n\nvar _ shapes.Shape = Circle{}\n",
	}}
	// custom directives at every executable location and on the three operation kinds, in two schema files, under both
	// exec layouts and both code styles (the generated operation and field middlewares must be declared once and be
	// handed the execution context the way the code style has it)
	var located []*sweepCase
	for _, layout := range []string{"exec:\n  filename: graph/generated.go\n  package: graph\n", "exec:\n  layout: follow-schema\n  dir: graph\n  package: graph\n"} {
		for _, style := range []string{"", "use_function_syntax_for_execution_context: true\n"} {
			located = append(located, &sweepCase{Config: "schema:\n  - \"*.graphqls\"\n" + layout +
				"model:\n  filename: graph/models_gen.go\n  package: graph\nresolver:\n  layout: follow-schema\n  dir: graph\n  package: graph\n" + style,
				Schema: map[string]string{
					"a.graphqls": "directive @log(level: Int! = 1) on FIELD | FRAGMENT_SPREAD | INLINE_FRAGMENT\ndirective @audit(tag: String) on QUERY | MUTATION | SUBSCRIPTION\ndirective @guard(role: String) on FIELD_DEFINITION | OBJECT\ntype Item @guard(role: \"r\") { id: ID! name: String @guard }\ntype Query { item: Item items: [Item!]! }\n",
					"b.graphqls": "extend type Query { other: Item @guard(role: \"o\") }\ntype Mutation { touch(id: ID!): Item }\ntype Subscription { ticks: Int! }\n",
				}})
		}
	}
	return append(located, []*sweepCase{
		handWritten,
		// getting started, plus a type only a root field returns
		mk(defaultConfig, `type Todo { id: ID! text: String! done: Boolean! user: User! }
type User { id: ID! name: String! }
type Viewer { id: ID! name: String! }
input NewTodo { text: String! userId: String! }
type Query { todos: [Todo!]! viewer: Viewer! }
type Mutation { createTodo(input: NewTodo!): Todo! rename(id: ID!, name: String!): RenamePayload! }
type RenamePayload { ok: Boolean! }
type Subscription { todoAdded: TodoEvent! }
type TodoEvent { at: Int! }
`),
		// inline configuration directives
		mk(defaultConfig, inlineDirectives+`type User @goExtraField(name: "Activated", type: "bool") {
  id: ID! @goField(name: "UserIdent")
  name: String! @goTag(key: "xorm", value: "-") @goTag(key: "yaml")
  friends: [User!]! @goField(forceResolver: true)
  best: User @goField(forceResolver: true)
}
type Forced @goModel(forceGenerate: true) { a: Int }
input Patch { name: String @goField(omittable: true) age: Int }
type Query { user(id: ID!): User patch(p: Patch): Int forced: Forced }
`),
		// field configuration in gqlgen.yml only
		mk(defaultConfig+`models:
  Account:
    fields:
      owner:
        resolver: true
      balance:
        fieldName: Amount
    extraFields:
      Session:
        type: "int"
`, `type Account { id: ID! owner: Person! balance: Int! }
type Person { name: String! }
type Query { account: Account! }
`),
		// value-typed struct fields: cycles and self references between types whose Go names differ from their schema names
		mk(defaultConfig+"struct_fields_always_pointers: false\n", `type user_profile { self: user_profile! peer: Other_thing! name: String }
type Other_thing { back: user_profile! again: user_profile }
type Plain { self: Plain! other: Second! }
type Second { plain: Plain! }
type Query { u: user_profile p: Plain }
`),
		// interfaces implementing interfaces, unions, enums, nested inputs with defaults
		mk(defaultConfig, `interface Node { id: ID! }
interface Named implements Node { id: ID! name: String! }
type Cat implements Named & Node { id: ID! name: String! lives: Int! }
type Dog implements Named & Node { id: ID! name: String! owner: Cat }
union Pet = Cat | Dog
enum Size { SMALL LARGE }
input Inner { size: Size = SMALL tags: [String!] = ["a"] }
input Outer { inner: Inner! list: [Inner!] n: Int = 3 }
type Query { node(id: ID!): Node pets(filter: Outer): [Pet!]! named: Named! size(s: Size = LARGE): Size! }
`),
	}...)
}
