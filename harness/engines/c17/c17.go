// Package c17 (a) replays histories of model-name allocations against codegen/templates' registry and (b) runs
// gqlgen's generator over random schemas and configurations and type-checks everything it writes.
package c17

import (
	"bytes"
	"fmt"
	"os"
	"os/exec"
	"path/filepath"
	"sort"
	"strings"
	"sync"

	"github.com/99designs/gqlgen/codegen/templates"

	"verifharness/gen"
)

var partPool = []string{"foo_bar", "FooBar", "fooBar", "Foo_Bar", "foo__bar", "FooBar0", "Prefix", "Id", "foo", "bar", "Foo", "Bar", "id", "ID", "user_id", "userId", "type", "Type", "_x", "x_", "a__b", "A", "a", "x-y", "x y", "é", "HTTP", "http", "Http", "X1", "x_1", "1"}

func repoDir() string {
	if d := os.Getenv("VERIF_REPO"); d != "" {
		return d
	}
	return "/repo"
}

var goEnv = func() []string {
	env := []string{}
	for _, e := range os.Environ() {
		if strings.HasPrefix(e, "GOFLAGS=") || strings.HasPrefix(e, "GOPROXY=") || e == "GOTOOLCHAIN=local" || e == "GOSUMDB=off" {
			continue
		}
		env = append(env, e)
	}
	return append(env, "GOFLAGS=-mod=mod", "GOPROXY=off")
}()

// cstr prints any Go string injectively as a Coq string literal.
func cstr(s string) string {
	var sb strings.Builder
	for i := 0; i < len(s); i++ {
		c := s[i]
		switch {
		case c == '\\':
			sb.WriteString("\\\\")
		case c < 0x20 || c > 0x7e:
			fmt.Fprintf(&sb, "\\x%02x", c)
		default:
			sb.WriteByte(c)
		}
	}
	return gen.Str(sb.String())
}

type call struct {
	Private bool     `json:"private"`
	Parts   []string `json:"parts"`
}

type histDescr struct {
	Calls []call   `json:"calls"`
	Names []string `json:"names"`
}

// ---- (b) generation sweep --------------------------------------------------------------------------------------

var boolOptions = []string{"omit_slice_element_pointers", "omit_getters", "omit_interface_checks", "omit_complexity", "omit_gqlgen_file_notice",
	"omit_root_models", "omit_resolver_fields", "omit_panic_handler", "use_function_syntax_for_execution_context",
	"call_argument_directives_with_null", "struct_fields_always_pointers", "return_pointers_in_unmarshalinput",
	"resolvers_always_return_pointers", "nullable_input_omittable", "enable_model_json_omitempty_tag", "enable_model_json_omitzero_tag"}

type sweepCase struct {
	Schema  map[string]string `json:"schema"`
	Config  string            `json:"config"`
	Stage   string            `json:"failed_stage,omitempty"`
	Output  string            `json:"output,omitempty"`
	Feature map[string]int    `json:"-"`
}

const defaultSweepConfig = "schema:\n  - \"*.graphqls\"\nexec:\n  filename: graph/generated.go\n  package: graph\nmodel:\n  filename: graph/models_gen.go\n  package: graph\nresolver:\n  layout: follow-schema\n  dir: graph\n  package: graph\n"

// GenConfig draws one configuration (layouts, worker_limit, model placement, the boolean options).
func GenConfig(r *gen.Rand) string {
	layout := gen.Pick(r, []string{"single-file", "follow-schema"})
	exec := "exec:\n  filename: graph/generated.go\n  package: graph\n"
	if layout == "follow-schema" {
		exec = "exec:\n  layout: follow-schema\n  dir: graph\n  package: graph\n"
	}
	exec += fmt.Sprintf("  worker_limit: %d\n", gen.Pick(r, []int{0, 0, 1, 8}))
	model := "model:\n  filename: graph/model/models_gen.go\n  package: model\n"
	if r.Chance(1, 3) {
		model = "model:\n  filename: graph/models_gen.go\n  package: graph\n"
	}
	res := "resolver:\n  layout: follow-schema\n  dir: graph\n  package: graph\n  filename_template: \"{name}.resolvers.go\"\n"
	if r.Chance(1, 3) {
		res = "resolver:\n  layout: single-file\n  filename: graph/resolver.go\n  package: graph\n  type: Resolver\n"
	}
	var opts []string
	for _, o := range boolOptions {
		switch r.Intn(4) {
		case 0:
			opts = append(opts, o+": true")
		case 1:
			opts = append(opts, o+": false")
		}
	}
	sort.Strings(opts)
	return "schema:\n  - \"*.graphqls\"\n  - \"sub/*.graphqls\"\n" + exec + model + res +
		"models:\n  Custom:\n    model: github.com/99designs/gqlgen/graphql.String\n" + strings.Join(opts, "\n") + "\n"
}

func runCmd(dir string, name string, args ...string) (string, error) {
	cmd := exec.Command(name, args...)
	cmd.Dir = dir
	cmd.Env = goEnv
	var out bytes.Buffer
	cmd.Stdout = &out
	cmd.Stderr = &out
	err := cmd.Run()
	s := strings.TrimSpace(out.String())
	if len(s) > 3000 {
		s = s[:3000]
	}
	return s, err
}

func runSweep(root string, idx int, sc *sweepCase) error {
	dir := filepath.Join(root, fmt.Sprintf("s%d", idx))
	defer os.RemoveAll(dir)
	if err := os.MkdirAll(filepath.Join(dir, "graph"), 0o755); err != nil {
		return err
	}
	gomod := "module c17proj\n\ngo 1.23.8\n\nrequire github.com/99designs/gqlgen v0.0.0\n\nreplace github.com/99designs/gqlgen => " + repoDir() + "\n"
	_ = os.WriteFile(filepath.Join(dir, "go.mod"), []byte(gomod), 0o644)
	sum, _ := os.ReadFile(filepath.Join(repoDir(), "go.sum"))
	_ = os.WriteFile(filepath.Join(dir, "go.sum"), sum, 0o644)
	_ = os.WriteFile(filepath.Join(dir, "gqlgen.yml"), []byte(sc.Config), 0o644)
	for name, text := range sc.Schema {
		p := filepath.Join(dir, name)
		_ = os.MkdirAll(filepath.Dir(p), 0o755)
		if err := os.WriteFile(p, []byte(text), 0o644); err != nil {
			return err
		}
	}
	self, _ := os.Executable()
	if out, err := runCmd(dir, self, "gen", dir, "graph/stub.go"); err != nil {
		sc.Stage, sc.Output = "generate", out
		return nil
	}
	if out, err := runCmd(dir, "go", "build", "./..."); err != nil {
		sc.Stage, sc.Output = "go build", out
		return nil
	}
	if out, err := runCmd(dir, "go", "vet", "./..."); err != nil {
		sc.Stage, sc.Output = "go vet", out
		return nil
	}
	return nil
}

func Run(c *gen.Ctx) error {
	r := gen.NewRand(c.Seed)
	meta := &gen.Meta{Property: "C17", Distribution: map[string]any{}}
	nHist, nSweep := 150, 12
	if c.Thorough() {
		nHist, nSweep = 3000, 150
	}
	// (a) registry histories
	var tbl []string
	for _, p := range partPool {
		tbl = append(tbl, fmt.Sprintf("(%s, (%s, %s, %s))", cstr(p), cstr(templates.ToGo(p)), cstr(templates.ToGoPrivate(p)), cstr(templates.VerifReplaceInvalidCharacters(p))))
	}
	cf := &gen.CaseFile{Dir: c.OutDir, Prop: "C17", Kind: "names", Requires: []string{"Base.Prelude", "Model.Naming", "Corr.Corr_C17"}, Type: "c17_case",
		Checks: []gen.Check{{Label: "corr", Fn: "c17_corr"}, {Label: "mon", Fn: "c17_mon"}, {Label: "monmodel", Fn: "c17_monmodel"}}, Shard: 200,
		Preamble: "Definition tbl : list (string * (string * string * string)) := " + gen.List(tbl) + "."}
	var descr []any
	hr := r.Fork(1)
	collisions := 0
	// pinned histories: families of three to five names that normalise to ONE identifier, as types (public) and as
	// private names, each family in two orders, alone and followed by a name that equals a suffixed one
	var pinnedHist [][]call
	for _, fam := range [][]string{{"foo_bar", "FooBar", "fooBar", "Foo_Bar", "foo__bar"}, {"http", "HTTP", "Http"}, {"id", "ID", "Id"}} {
		for _, private := range []bool{false, true} {
			var fwd, rev []call
			for i := range fam {
				fwd = append(fwd, call{Private: private, Parts: []string{fam[i]}})
				rev = append(rev, call{Private: private, Parts: []string{fam[len(fam)-1-i]}})
			}
			pinnedHist = append(pinnedHist, fwd, rev, append(append([]call{}, fwd[:2]...), call{Private: private, Parts: []string{"FooBar0"}}, fwd[2]),
				append(append([]call{}, fwd...), call{Parts: []string{"Prefix", fam[0]}}, call{Parts: []string{"Prefix", fam[1]}}, call{Parts: []string{"Prefix", fam[2]}}))
		}
	}
	nHist += len(pinnedHist)
	for h := 0; h < nHist; h++ {
		templates.VerifResetModelNames()
		n := 3 + hr.Intn(25)
		var pinnedCalls []call
		if h < len(pinnedHist) {
			pinnedCalls = pinnedHist[h]
			n = len(pinnedCalls)
		}
		var calls []call
		var names, coqCalls, coqNames []string
		for i := 0; i < n; i++ {
			var cl call
			if pinnedCalls != nil {
				cl = pinnedCalls[i]
			} else if i > 0 && hr.Chance(1, 5) {
				cl = calls[hr.Intn(len(calls))] // the same entity again
				if hr.Chance(1, 3) {
					cl.Private = !cl.Private
				}
			} else {
				k := 1 + hr.Intn(3)
				if hr.Chance(1, 2) {
					k = 1
				}
				for j := 0; j < k; j++ {
					cl.Parts = append(cl.Parts, gen.Pick(hr, partPool))
				}
				cl.Private = hr.Chance(1, 4)
			}
			var name string
			if cl.Private {
				name = templates.ToGoPrivateModelName(cl.Parts...)
			} else {
				name = templates.ToGoModelName(cl.Parts...)
			}
			calls = append(calls, cl)
			names = append(names, name)
			var ps []string
			for _, p := range cl.Parts {
				ps = append(ps, cstr(p))
			}
			coqCalls = append(coqCalls, fmt.Sprintf("(%s, %s)", gen.Bool(cl.Private), gen.List(ps)))
			coqNames = append(coqNames, cstr(name))
			if len(name) > 0 && name[len(name)-1] >= '0' && name[len(name)-1] <= '9' {
				collisions++
			}
		}
		cf.Add(fmt.Sprintf("{| n_table := tbl; n_calls := %s; n_obs := %s |}", gen.List(coqCalls), gen.List(coqNames)))
		descr = append(descr, histDescr{calls, names})
	}
	templates.VerifResetModelNames()
	if err := meta.AddCaseFile(cf, descr); err != nil {
		return err
	}
	// (a') the word-level functions against Model.ToGo: every text over a small alphabet up to a length, and
	// random concatenations of words, initialisms, digits and delimiters
	tg := &gen.CaseFile{Dir: c.OutDir, Prop: "C17", Kind: "togo", Requires: []string{"Base.Prelude", "Model.ToGo", "Corr.Corr_C17"}, Type: "togo_case",
		Checks: []gen.Check{{Label: "corr", Fn: "togo_corr"}, {Label: "mon", Fn: "togo_mon"}, {Label: "monmodel", Fn: "togo_monmodel"}}, Shard: 2500}
	var tdescr []any
	addName := func(n string) {
		g, p := templates.ToGo(n), templates.ToGoPrivate(n)
		tg.Add(fmt.Sprintf("{| tg_name := %s; tg_go := %s; tg_private := %s |}", cstr(n), cstr(g), cstr(p)))
		tdescr = append(tdescr, map[string]string{"name": n, "ToGo": g, "ToGoPrivate": p})
	}
	alphabet := []string{"a", "d", "B", "I", "D", "P", "_", "1", "-"}
	maxLen := 4
	if c.Thorough() {
		maxLen = 5
	}
	var enum func(prefix string, k int)
	enum = func(prefix string, k int) {
		if prefix != "" {
			addName(prefix)
		}
		if k == 0 {
			return
		}
		for _, a := range alphabet {
			enum(prefix+a, k-1)
		}
	}
	enum("", maxLen)
	tokens := []string{"id", "ID", "Id", "ip", "IP", "url", "URL", "Urls", "URLs", "http", "HTTP", "HTTPS", "api", "API", "uuid", "UUID", "utf8", "UTF8", "user", "User", "USER",
		"type", "func", "map", "range", "go", "select", "default", "interface", "var", "Foo", "foo", "FOO", "FOo", "x", "X", "i", "I", "_", "__", "-", " ", "1", "22", "0",
		"Ticket", "iPhone", "camelCase", "snake_case", "SCREAMING_SNAKE", "a1", "B2", "v2", "ACL", "Acl", "QR", "Vm", "VM", "XSS", "Aws"}
	nRand := 1500
	if c.Thorough() {
		nRand = 20000
	}
	tr := r.Fork(3)
	for i := 0; i < nRand; i++ {
		var sb strings.Builder
		for j := 0; j < 1+tr.Intn(5); j++ {
			sb.WriteString(gen.Pick(tr, tokens))
		}
		addName(sb.String())
	}
	for _, n := range append(append([]string{}, fieldNames...), append(argNames, append(typeNamePool, enumValuePool...)...)...) {
		addName(n)
	}
	if err := meta.AddCaseFile(tg, tdescr); err != nil {
		return err
	}
	meta.Distribution["word_level_names_compared"] = tg.Len()
	// (b) sweep
	root := filepath.Join(os.Getenv("VERIF_WORK"), "c17")
	if os.Getenv("VERIF_WORK") == "" {
		root = filepath.Join(c.OutDir, "c17work")
	}
	_ = os.MkdirAll(root, 0o755)
	defer os.RemoveAll(root)
	sr := r.Fork(2)
	cases := make([]*sweepCase, nSweep)
	for i := range cases {
		s, f := Generate(sr)
		cases[i] = &sweepCase{Schema: s, Config: GenConfig(sr), Feature: f}
	}
	// the kept finding, pinned: two type names that normalise to one Go identifier
	pinned := &sweepCase{Config: GenConfig(gen.NewRand(7)), Schema: map[string]string{"a.graphqls": "scalar Custom\ntype user_profile { a: Int }\ntype UserProfile { b: Int }\nunion Either = user_profile | UserProfile\ntype Query { one: user_profile two: UserProfile either: Either }\n"}}
	pinned2 := &sweepCase{Config: GenConfig(gen.NewRand(8)), Schema: map[string]string{"a.graphqls": "scalar Custom\ntype Query { f(_: Int): Int }\n"}}
	pinned3 := &sweepCase{Config: GenConfig(gen.NewRand(9)), Schema: map[string]string{"a.graphqls": "scalar Custom\ntype Thing { _1: Int }\ntype Query { thing: Thing }\n"}}
	// two more kept findings, pinned: a field that returns a root type while root models are omitted, and value-typed
	// struct fields around a cycle of three types
	pinned4 := &sweepCase{Config: defaultSweepConfig + "omit_root_models: true\n", Schema: map[string]string{"a.graphqls": "type Query { a: Int self: Query }\n"}}
	pinned5 := &sweepCase{Config: defaultSweepConfig + "struct_fields_always_pointers: false\n", Schema: map[string]string{"a.graphqls": "type A { b: B! }\ntype B { c: C! }\ntype C { a: A! }\ntype Query { a: A }\n"}}
	cases = append(cases, pinned, pinned2, pinned3, pinned4, pinned5)
	cases = append(cases, idiomProjects()...)
	nSweep = len(cases)
	errs := make([]error, nSweep)
	var wg sync.WaitGroup
	sem := make(chan struct{}, 8)
	for i := range cases {
		wg.Add(1)
		go func(i int) {
			defer wg.Done()
			sem <- struct{}{}
			defer func() { <-sem }()
			errs[i] = runSweep(root, i, cases[i])
		}(i)
	}
	wg.Wait()
	features := map[string]int{}
	optsUsed := map[string]int{}
	for i, sc := range cases {
		if errs[i] != nil {
			return errs[i]
		}
		for k, v := range sc.Feature {
			features[k] += v
		}
		for _, l := range strings.Split(sc.Config, "\n") {
			if strings.HasSuffix(l, ": true") {
				optsUsed[strings.TrimSuffix(l, ": true")]++
			}
		}
		if sc == pinned2 {
			if sc.Stage != "" {
				meta.Direct = append(meta.Direct, gen.DirectFinding{Signature: "argument-named-underscore-forwarded-as-blank-identifier",
					What: "type Query { f(_: Int): Int }: " + sc.Stage + " failed: " + sc.Output, Replay: sc})
			}
			continue
		}
		if sc == pinned3 {
			if sc.Stage != "" {
				meta.Direct = append(meta.Direct, gen.DirectFinding{Signature: "digit-after-leading-underscores-gives-identifier-starting-with-a-digit",
					What: "type Thing { _1: Int }: " + sc.Stage + " failed: " + sc.Output, Replay: sc})
			}
			continue
		}
		if sc == pinned4 {
			if sc.Stage != "" {
				meta.Direct = append(meta.Direct, gen.DirectFinding{Signature: "field-of-root-type-with-omitted-root-models-panics",
					What: "omit_root_models: true with type Query { a: Int self: Query }: " + sc.Stage + " failed: " + sc.Output, Replay: sc})
			}
			continue
		}
		if sc == pinned5 {
			if sc.Stage != "" {
				meta.Direct = append(meta.Direct, gen.DirectFinding{Signature: "value-typed-cycle-of-three-types",
					What: "struct_fields_always_pointers: false with type A { b: B! } type B { c: C! } type C { a: A! }: " + sc.Stage + " failed: " + sc.Output, Replay: sc})
			}
			continue
		}
		if sc == pinned {
			if sc.Stage != "" {
				meta.Direct = append(meta.Direct, gen.DirectFinding{Signature: "type-names-normalising-together-share-one-go-type",
					What: "type user_profile and type UserProfile: " + sc.Stage + " failed: " + sc.Output, Replay: sc})
			}
			continue
		}
		if sc.Stage != "" {
			meta.Direct = append(meta.Direct, gen.DirectFinding{Signature: "generated-code-" + strings.ReplaceAll(sc.Stage, " ", "-") + "-fails",
				What: fmt.Sprintf("for a valid schema and a documented configuration, %s failed: %s", sc.Stage, sc.Output), Replay: sc})
		}
	}
	meta.Distribution["registry_histories"] = nHist
	meta.Distribution["names_allocated_with_numeric_suffix"] = collisions
	meta.Distribution["generation_sweep_cases"] = nSweep
	meta.Distribution["sweep_schema_features"] = features
	meta.Distribution["sweep_options_set_true"] = optsUsed
	meta.Programs = nSweep
	meta.Evaluations = nHist + nSweep
	meta.DistinctNontrivial = nHist + nSweep
	meta.Rule = "(a) histories of 3..27 ToGoModelName / ToGoPrivateModelName calls over a pool of 27 parts that normalise together in many ways (case, underscores, initialisms, keywords, characters the registry replaces), 1..3 parts per entity, repeated entities, replayed from a reset registry against the model; (b) random schemas over names gqlgen documents or handles (Go keywords and predeclared identifiers as field, argument and type names, initialisms, leading/trailing/embedded underscores, enum values and type names that normalise to one Go identifier) with objects, an interface, unions, enums, inputs with defaults, list/non-null nesting, a directive, a mapped custom scalar, mutation/subscription, an extension in a second schema file, x random values of 16 boolean options, both exec layouts, both resolver layouts, worker_limit, models inside or outside the exec package: gqlgen generate, then go build ./... and go vet ./... of everything written."
	if len(descr) > 1 {
		meta.Samples = append(meta.Samples, descr[0])
	}
	return meta.Write(c.OutDir)
}
