// Package c18 runs gqlgen's generator repeatedly - separate processes (fresh map seeds), different GOMAXPROCS,
// different start directories, clean tree and tree holding previous output - and compares every written file
// byte for byte; it also extracts the emitted order of the executor's objects and inputs for Corr_C18.
package c18

import (
	"bytes"
	"crypto/sha256"
	"encoding/hex"
	"fmt"
	"io/fs"
	"os"
	"os/exec"
	"path/filepath"
	"regexp"
	"sort"
	"strings"
	"sync"

	"verifharness/engines/c17"
	"verifharness/engines/c19"
	"verifharness/gen"
)

func repoDir() string {
	if d := os.Getenv("VERIF_REPO"); d != "" {
		return d
	}
	return "/repo"
}

func goEnv(maxprocs int) []string {
	env := []string{}
	for _, e := range os.Environ() {
		if strings.HasPrefix(e, "GOFLAGS=") || strings.HasPrefix(e, "GOPROXY=") || strings.HasPrefix(e, "GOMAXPROCS=") || e == "GOTOOLCHAIN=local" || e == "GOSUMDB=off" {
			continue
		}
		env = append(env, e)
	}
	return append(env, "GOFLAGS=-mod=mod", "GOPROXY=off", fmt.Sprintf("GOMAXPROCS=%d", maxprocs))
}

type projectSpec struct {
	Name   string            `json:"name"`
	Schema map[string]string `json:"schema"`
	Config string            `json:"config"`
	// bytes of comment lines written in front of a schema file's text (kept out of the replay)
	Pad map[string]int `json:"comment_bytes_in_front,omitempty"`
}

func writeProject(dir string, p projectSpec) error {
	if err := os.MkdirAll(filepath.Join(dir, "graph"), 0o755); err != nil {
		return err
	}
	gomod := "module c18proj\n\ngo 1.23.8\n\nrequire github.com/99designs/gqlgen v0.0.0\n\nreplace github.com/99designs/gqlgen => " + repoDir() + "\n"
	_ = os.WriteFile(filepath.Join(dir, "go.mod"), []byte(gomod), 0o644)
	sum, _ := os.ReadFile(filepath.Join(repoDir(), "go.sum"))
	_ = os.WriteFile(filepath.Join(dir, "go.sum"), sum, 0o644)
	_ = os.WriteFile(filepath.Join(dir, "gqlgen.yml"), []byte(p.Config), 0o644)
	for name, text := range p.Schema {
		if n := p.Pad[name]; n > 0 {
			line := "# " + strings.Repeat("documentation ", 8) + "\n"
			text = strings.Repeat(line, n/len(line)+1) + text
		}
		f := filepath.Join(dir, name)
		_ = os.MkdirAll(filepath.Dir(f), 0o755)
		if err := os.WriteFile(f, []byte(text), 0o644); err != nil {
			return err
		}
	}
	return nil
}

func generate(startDir string, maxprocs int) (string, error) {
	self, _ := os.Executable()
	cmd := exec.Command(self, "gen", startDir, "graph/stub.go")
	cmd.Env = goEnv(maxprocs)
	var out bytes.Buffer
	cmd.Stderr = &out
	cmd.Stdout = &out
	err := cmd.Run()
	return strings.TrimSpace(out.String()), err
}

// hashes of every generated Go file under dir/graph
func hashTree(dir string) map[string]string {
	out := map[string]string{}
	_ = filepath.WalkDir(filepath.Join(dir, "graph"), func(p string, d fs.DirEntry, err error) error {
		if err != nil || d.IsDir() || !strings.HasSuffix(p, ".go") {
			return nil
		}
		b, _ := os.ReadFile(p)
		h := sha256.Sum256(b)
		rel, _ := filepath.Rel(dir, p)
		out[rel] = hex.EncodeToString(h[:])
		return nil
	})
	return out
}

func diffHashes(a, b map[string]string) []string {
	var out []string
	for k, v := range a {
		if b[k] != v {
			out = append(out, k)
		}
	}
	for k := range b {
		if _, ok := a[k]; !ok {
			out = append(out, k)
		}
	}
	sort.Strings(out)
	return out
}

var objRe = regexp.MustCompile(`(?m)^func (?:\(ec \*executionContext\) )?_([A-Za-z0-9_]+)\((?:ctx context\.Context, ec \*executionContext|ctx context\.Context), sel ast\.SelectionSet(, obj \*?)?`)
var inputRe = regexp.MustCompile(`(?m)^func (?:\(ec \*executionContext\) )?unmarshalInput([A-Za-z0-9_]+)\(`)

// emittedOrders extracts, per generated executor file, the order of object marshalers and of input unmarshalers.
func emittedOrders(dir string) map[string][]string {
	out := map[string][]string{}
	files, _ := filepath.Glob(filepath.Join(dir, "graph", "*.go"))
	sort.Strings(files)
	for _, f := range files {
		b, err := os.ReadFile(f)
		if err != nil || !bytes.Contains(b, []byte("executionContext")) {
			continue
		}
		base := filepath.Base(f)
		for _, m := range objRe.FindAllStringSubmatch(string(b), -1) {
			// interfaces and unions are marshalled from a value (obj T), objects from a pointer (obj *T) or, for
			// the root types, from nothing: two separately sorted groups
			if m[2] == ", obj " {
				out["interfaces in "+base] = append(out["interfaces in "+base], m[1])
			} else {
				out["objects in "+base] = append(out["objects in "+base], m[1])
			}
		}
		for _, m := range inputRe.FindAllStringSubmatch(string(b), -1) {
			out["inputs in "+base] = append(out["inputs in "+base], m[1])
		}
	}
	return out
}

type caseDescr struct {
	Project projectSpec `json:"project"`
	What    string      `json:"what"`
	Names   []string    `json:"names"`
}

const sameBaseConfig = `schema:
  - "a/s.graphqls"
  - "b/s.graphqls"
exec:
  layout: follow-schema
  dir: graph
  package: graph
model:
  filename: graph/models_gen.go
  package: graph
resolver:
  layout: follow-schema
  dir: graph
  package: graph
  filename_template: "{name}.resolvers.go"
`

const wideConfig = `schema:
  - "*.graphqls"
exec:
  filename: graph/generated.go
  package: graph
model:
  filename: graph/model/models_gen.go
  package: model
resolver:
  layout: single-file
  filename: graph/resolver.go
  package: graph
  type: Resolver
struct_fields_always_pointers: false
`

func wideSchema() string {
	var b strings.Builder
	var members, q []string
	for k := 0; k < 7; k++ {
		fmt.Fprintf(&b, "type Order%d implements Node & Stamped { id: ID! at: Int! billing: Party%d! shipping: Party%d! third: Party%d! }\n", k, k, k, k)
		fmt.Fprintf(&b, "type Party%d implements Node { id: ID! order: Order%d! kind: Kind%d }\n", k, k, k)
		fmt.Fprintf(&b, "enum Kind%d { A%d B%d }\ninput In%d { k: Kind%d = A%d next: [In%d!] }\ndirective @d%d(x: Int = %d) on FIELD_DEFINITION\n", k, k, k, k, k, k, k, k, k)
		fmt.Fprintf(&b, "type Self%d { me: Self%d! other: Self%d }\n", k, k, (k+1)%7)
		members = append(members, fmt.Sprintf("Order%d", k), fmt.Sprintf("Party%d", k))
		q = append(q, fmt.Sprintf("  order%d(in: In%d): Order%d! @d%d", k, k, k, k), fmt.Sprintf("  self%d: Self%d", k, k))
	}
	fmt.Fprintf(&b, "interface Node { id: ID! }\ninterface Stamped { at: Int! }\nunion Any = %s\ntype Query {\n%s\n  any: [Any!]! node: Node stamped: Stamped\n}\n", strings.Join(members, " | "), strings.Join(q, "\n"))
	return b.String()
}

func Run(c *gen.Ctx) error {
	r := gen.NewRand(c.Seed)
	meta := &gen.Meta{Property: "C18", Distribution: map[string]any{}}
	n := 3
	if c.Thorough() {
		n = 20
	}
	var projects []projectSpec
	// two schema files with the same base name in different directories, follow-schema layout
	projects = append(projects, projectSpec{Name: "same-basename", Config: sameBaseConfig, Schema: map[string]string{
		"a/s.graphqls": "directive @da on FIELD_DEFINITION\ntype Query { a: String @da  user_profile: user_profile }\ntype user_profile { x: Int }\nenum E1 { foo_bar FooBar }\n",
		"b/s.graphqls": "directive @db on FIELD_DEFINITION\nextend type Query { b: String @db  up: UserProfile }\ntype UserProfile { y: Int }\ninput In2 { a: Int }\ninput In1 { b: Int }\n",
	}})
	// the same, with no input types, an interface and a union in each file, and directives with arguments declared in
	// each: whichever definition happens to open the shared generated file must not decide what is written into it
	projects = append(projects, projectSpec{Name: "same-basename-interfaces", Config: strings.NewReplacer("a/s.graphqls", "a/t.graphqls", "b/s.graphqls", "b/t.graphqls").Replace(sameBaseConfig), Schema: map[string]string{
		"a/t.graphqls": "directive @da(x: Int) on FIELD_DEFINITION\ninterface NodeA { id: ID! }\ntype TA implements NodeA { id: ID! v: String @da(x: 1) }\ntype TA2 implements NodeA { id: ID! }\nunion UA = TA | TA2\ntype Query { a: NodeA ua: UA }\n",
		"b/t.graphqls": "directive @db(y: String) on FIELD_DEFINITION\ninterface NodeB { id: ID! }\ntype TB implements NodeB { id: ID! w: String @db(y: \"k\") }\ntype TB2 implements NodeB { id: ID! }\nunion UB = TB | TB2\nextend type Query { b: NodeB ub: UB }\n",
	}})
	// passes that walk the types before they are sorted: value-typed struct fields with asymmetric non-null cycles,
	// interfaces with many implementors, unions with many members, many enums / inputs / directives
	projects = append(projects, projectSpec{Name: "wide-value-cycles", Config: wideConfig, Schema: map[string]string{"wide.graphqls": wideSchema()}})
	// a schema spread over files of very different sizes (a big documented catalogue next to a small extension file):
	// the order of the sources, hence of the merged fields, must be the listed order whatever finishes loading first
	projects = append(projects, projectSpec{Name: "skewed-schema-files", Config: strings.Replace(wideConfig, `"*.graphqls"`, `"graph/*.graphqls"`, 1),
		Pad: map[string]int{"graph/a_catalog.graphqls": 3 << 20},
		Schema: map[string]string{
			"graph/a_catalog.graphqls": "type Product { id: ID! name: String! }\ntype Query { products: [Product!]! product(id: ID!): Product }\ntype Mutation { addProduct(name: String!): Product! }\n",
			"graph/b_reviews.graphqls": "type Review { id: ID! stars: Int! }\nextend type Product { reviews: [Review!]! }\nextend type Query { reviews: [Review!]! }\nextend type Mutation { addReview(stars: Int!): Review! }\n",
			"graph/c_users.graphqls":   "type User { id: ID! }\nextend type Query { me: User }\nextend type Review { by: User }\n",
		}})
	// type names that differ in the schema and fall together as Go names, used as field types of two different
	// non-root types: whichever name the generator gives each of them must not depend on the process
	projects = append(projects, projectSpec{Name: "colliding-field-types", Config: wideConfig, Schema: map[string]string{"collide.graphqls": `type Query { h1: Holder1 h2: Holder2 }
type Holder1 { a: order_item b: user_id c: Line_Total }
type Holder2 { a: OrderItem b: UserID c: LineTotal }
type order_item { x: Int }
type OrderItem { y: Int }
type user_id { x: Int }
type UserID { y: Int }
type Line_Total { x: Int }
type LineTotal { y: Int }
`}})
	// federation with explicit_requires and several entities that have @requires fields: one populator per such entity
	// in federation.requires.go, collected in a map before they are written
	{
		var b strings.Builder
		b.WriteString("extend schema @link(url: \"https://specs.apollo.dev/federation/v2.7\", import: [\"@key\", \"@requires\", \"@external\"])\n\ntype Query { ping: String! }\ntype Account @key(fields: \"id\") { id: ID! email: String! }\n")
		for _, e := range []string{"Asteroid", "Comet", "Moon", "Planet", "Star", "Nebula", "Quasar"} {
			fmt.Fprintf(&b, "type %s @key(fields: \"name\") { name: String! diameter: Int! @external size: Int! @requires(fields: \"diameter\") }\n", e)
		}
		projects = append(projects, projectSpec{Name: "federation-explicit-requires", Config: `schema:
  - "*.graphqls"
exec:
  filename: graph/generated.go
  package: graph
federation:
  filename: graph/federation.go
  package: graph
  version: 2
  options:
    explicit_requires: true
model:
  filename: graph/model/models_gen.go
  package: model
resolver:
  layout: follow-schema
  dir: graph
  package: graph
`, Schema: map[string]string{"planets.graphqls": b.String()}})
	}
	pr := r.Fork(1)
	for i := 0; i < n; i++ {
		s, _ := c17.Generate(pr)
		projects = append(projects, projectSpec{Name: fmt.Sprintf("random%d", i), Schema: s, Config: c17.GenConfig(pr)})
	}
	root := filepath.Join(os.Getenv("VERIF_WORK"), "c18")
	if os.Getenv("VERIF_WORK") == "" {
		root = filepath.Join(c.OutDir, "c18work")
	}
	_ = os.MkdirAll(root, 0o755)
	defer os.RemoveAll(root)
	cf := &gen.CaseFile{Dir: c.OutDir, Prop: "C18", Kind: "order", Requires: []string{"Base.Prelude", "Model.GenOrder", "Corr.Corr_C18"}, Type: "c18_case",
		Checks: []gen.Check{{Label: "corr", Fn: "c18_corr"}, {Label: "mon", Fn: "c18_mon"}, {Label: "monmodel", Fn: "c18_monmodel"}}, Shard: 500}
	var descr []any
	var mu sync.Mutex
	var wg sync.WaitGroup
	sem := make(chan struct{}, 6)
	runs := 0
	repeats := 2
	if c.Thorough() {
		repeats = 4
	}
	for pi, p := range projects {
		wg.Add(1)
		go func(pi int, p projectSpec) {
			defer wg.Done()
			sem <- struct{}{}
			defer func() { <-sem }()
			report := func(sig, what string) {
				mu.Lock()
				meta.Direct = append(meta.Direct, gen.DirectFinding{Signature: sig, What: what, Replay: p})
				mu.Unlock()
			}
			dirA := filepath.Join(root, fmt.Sprintf("p%da", pi))
			dirB := filepath.Join(root, fmt.Sprintf("p%db", pi))
			defer os.RemoveAll(dirA)
			defer os.RemoveAll(dirB)
			if err := writeProject(dirA, p); err != nil {
				report("harness", err.Error())
				return
			}
			if err := writeProject(dirB, p); err != nil {
				report("harness", err.Error())
				return
			}
			// run 1: clean tree, project root, one processor
			if out, err := generate(dirA, 1); err != nil {
				report("generation-fails", "generation failed for project "+p.Name+": "+out)
				return
			}
			h1 := hashTree(dirA)
			// run 2: an independent clean copy, started from inside the project, many processors
			if out, err := generate(filepath.Join(dirB, "graph"), 16); err != nil {
				report("generation-fails", "generation started from a sub-directory failed for project "+p.Name+": "+out)
				return
			}
			if d := diffHashes(h1, hashTree(dirB)); len(d) > 0 {
				report("generation-not-deterministic", fmt.Sprintf("two runs on clean copies of project %s (start directory root vs graph/, GOMAXPROCS 1 vs 16) differ in %v", p.Name, d))
			}
			// projects whose output hinges on what happens before anything is sorted: more fresh processes (a map's
			// iteration order takes only a few distinct values for a small map, so two runs agree by chance too often)
			if strings.HasPrefix(p.Name, "colliding") || strings.HasPrefix(p.Name, "same-basename") || strings.HasPrefix(p.Name, "federation") {
				for k := 0; k < 6; k++ {
					dirC := filepath.Join(root, fmt.Sprintf("p%dc%d", pi, k))
					if err := writeProject(dirC, p); err != nil {
						break
					}
					_, gerr := generate(dirC, []int{1, 2, 4, 16}[k%4])
					hk := hashTree(dirC)
					_ = os.RemoveAll(dirC)
					if gerr != nil {
						continue
					}
					if d := diffHashes(h1, hk); len(d) > 0 {
						report("generation-not-deterministic", fmt.Sprintf("two runs on clean copies of project %s in separate processes differ in %v", p.Name, d))
						break
					}
				}
			}
			// runs 3..: again on the tree that holds the previous output (idempotence), alternating processors
			for k := 0; k < repeats; k++ {
				if out, err := generate(dirA, []int{2, 16, 1, 4}[k%4]); err != nil {
					report("generation-fails", "regeneration over previous output failed for project "+p.Name+": "+out)
					return
				}
				if d := diffHashes(h1, hashTree(dirA)); len(d) > 0 {
					report("generation-not-idempotent", fmt.Sprintf("regenerating project %s over its own fresh output changed %v", p.Name, d))
					break
				}
			}
			mu.Lock()
			runs += 2 + repeats
			for what, names := range emittedOrders(dirA) {
				var ns []string
				for _, x := range names {
					ns = append(ns, gen.Str(x))
				}
				cf.Add(fmt.Sprintf("{| o_what := %s; o_names := %s |}", gen.Str(p.Name+": "+what), gen.List(ns)))
				descr = append(descr, caseDescr{Project: p, What: what, Names: names})
			}
			mu.Unlock()
		}(pi, p)
	}
	wg.Wait()
	if err := meta.AddCaseFile(cf, descr); err != nil {
		return err
	}
	// the resolver files of fresh projects against the declaration-level model of a regeneration (Model.Regen):
	// the second run must be what the model's run over the first run's output is
	rcf := &gen.CaseFile{Dir: c.OutDir, Prop: "C18", Kind: "regen", Requires: []string{"Base.Prelude", "Model.Rewrite", "Model.Regen", "Corr.Corr_C19"}, Type: "c19_case",
		Checks: []gen.Check{{Label: "corr", Fn: "c19_corr"}, {Label: "mon", Fn: "c19_montol"}, {Label: "monmodel", Fn: "c19_monmodel"}}, Shard: 40}
	var rdescr []any
	nFresh := 4
	if c.Thorough() {
		nFresh = 40
	}
	fr := r.Fork(5)
	type freshRes struct {
		coq    string
		descr  any
		direct []gen.DirectFinding
		err    error
	}
	fres := make([]freshRes, nFresh)
	var fwg sync.WaitGroup
	for i := 0; i < nFresh; i++ {
		seed := fr.U64()
		layout := []string{"single-file", "follow-schema"}[i%2]
		fwg.Add(1)
		go func(i int) {
			defer fwg.Done()
			sem <- struct{}{}
			defer func() { <-sem }()
			var f freshRes
			f.coq, f.descr, f.direct, f.err = c19.FreshRegeneration(root, 1000+i, seed, layout)
			fres[i] = f
		}(i)
	}
	fwg.Wait()
	for _, f := range fres {
		if f.err != nil {
			return f.err
		}
		meta.Direct = append(meta.Direct, f.direct...)
		if f.coq != "" {
			rcf.Add(f.coq)
			rdescr = append(rdescr, f.descr)
		}
	}
	if err := meta.AddCaseFile(rcf, rdescr); err != nil {
		return err
	}
	meta.Distribution["fresh_regenerations_against_the_model"] = rcf.Len()
	meta.Distribution["projects"] = len(projects)
	meta.Distribution["generator_runs"] = runs
	meta.Distribution["emitted_lists_checked"] = cf.Len()
	meta.Programs = len(projects)
	meta.Evaluations = runs
	meta.DistinctNontrivial = len(projects)
	meta.Rule = "projects: one whose schema is three files of very different sizes (3 MB, then two small ones extending its types), one with two schema files of the same base name in different directories (follow-schema layout, names colliding after normalisation) + random projects from the C17 generator (schemas with colliding names x random options/layouts). Per project: generation in separate processes (fresh map seeds) on a clean tree from the project root with GOMAXPROCS=1; on an independent clean copy started from inside graph/ with GOMAXPROCS=16; then 2 (quick) or 4 (thorough) more times over the tree holding the previous output with GOMAXPROCS 2/16/1/4. SHA-256 of every written .go file must be identical across all runs. The emitted order of object marshalers and input unmarshalers per executor file is extracted and must be the sorted order. Fresh projects of the C19 generator (both resolver layouts) are regenerated with nothing edited: byte-identical files, and the resolver files of the second run are compared declaration by declaration with the model's run (Model.Regen) over the first run's output."
	if len(descr) > 0 {
		meta.Samples = append(meta.Samples, descr[0])
	}
	return meta.Write(c.OutDir)
}
