// Package c11 drives scripted websocket sessions (gorilla client over httptest.Server, both subprotocols)
// against handler.Server + transport.Websocket with a controllable subscription resolver, and prints the labels
// issued and the frames / events observed as Coq terms for Corr_C11.
package c11

import (
	"context"
	"encoding/json"
	"errors"
	"fmt"
	"net/http"
	"net/http/httptest"
	"os"
	"runtime"
	"sort"
	"strings"
	"sync"
	"sync/atomic"
	"time"

	"github.com/gorilla/websocket"
	"github.com/vektah/gqlparser/v2"
	"github.com/vektah/gqlparser/v2/ast"
	"github.com/vektah/gqlparser/v2/gqlerror"

	"github.com/99designs/gqlgen/graphql"
	"github.com/99designs/gqlgen/graphql/handler"
	"github.com/99designs/gqlgen/graphql/handler/transport"

	"verifharness/gen"
)

var schema = gqlparser.MustLoadSchema(&ast.Source{Name: "s.graphqls", Input: `
type Query { a: String }
type Subscription { tick(k: String): String }
`})

// ---- the observable log ------------------------------------------------------------------------------------

type entry struct {
	kind string // frame | exec | cancel | closefunc | initok | sockclosed
	typ  string // frame type
	id   string
	code int
}

type session struct {
	mu      sync.Mutex
	log     []entry
	changed chan struct{}
	ctl     map[string]chan string // operation key -> commands for its resolver
}

func (s *session) add(e entry) {
	s.mu.Lock()
	s.log = append(s.log, e)
	s.mu.Unlock()
	select {
	case s.changed <- struct{}{}:
	default:
	}
}

func (s *session) snapshot() []entry {
	s.mu.Lock()
	defer s.mu.Unlock()
	return append([]entry{}, s.log...)
}

func (s *session) count(pred func(entry) bool) int {
	n := 0
	for _, e := range s.snapshot() {
		if pred(e) {
			n++
		}
	}
	return n
}

// waitFor waits until pred holds for the log (or the deadline passes).
func (s *session) waitFor(pred func([]entry) bool, max time.Duration) bool {
	deadline := time.After(max)
	for {
		if pred(s.snapshot()) {
			return true
		}
		select {
		case <-s.changed:
		case <-time.After(2 * time.Millisecond):
		case <-deadline:
			return pred(s.snapshot())
		}
	}
}

// settle waits until nothing was logged for quiet.
func (s *session) settle(quiet time.Duration) {
	last := len(s.snapshot())
	for i := 0; i < 100; i++ {
		time.Sleep(quiet)
		n := len(s.snapshot())
		if n == last {
			return
		}
		last = n
	}
}

func (s *session) channel(key string) chan string {
	s.mu.Lock()
	defer s.mu.Unlock()
	ch, ok := s.ctl[key]
	if !ok {
		ch = make(chan string, 64)
		s.ctl[key] = ch
	}
	return ch
}

// ---- server ------------------------------------------------------------------------------------------------

type serverCfg struct {
	initAccepts bool
	keepAlive   time.Duration
	pongOnly    time.Duration
	pingPong    time.Duration
	initTimeout time.Duration
	detached    bool
}

func newServer(s *session, cfg serverCfg) (*httptest.Server, context.CancelFunc) {
	es := &graphql.ExecutableSchemaMock{
		SchemaFunc: func() *ast.Schema { return schema },
		ComplexityFunc: func(ctx context.Context, typeName, fieldName string, childComplexity int, args map[string]any) (int, bool) {
			return 0, false
		},
		ExecFunc: func(ctx context.Context) graphql.ResponseHandler {
			oc := graphql.GetOperationContext(ctx)
			key, _ := oc.Variables["k"].(string)
			s.add(entry{kind: "exec", id: key})
			go func() {
				<-ctx.Done()
				s.add(entry{kind: "cancel", id: key})
			}()
			cmds := s.channel(key)
			n := 0
			return func(ctx context.Context) *graphql.Response {
				select {
				case <-ctx.Done():
					return nil
				case cmd := <-cmds:
					switch cmd {
					case "emit":
						n++
						return &graphql.Response{Data: json.RawMessage(fmt.Sprintf(`{"tick":"%s-%d"}`, key, n))}
					case "fail":
						transport.AddSubscriptionError(ctx, gqlerror.Errorf("subscription failed"))
						return nil
					case "panic":
						panic("boom")
					}
					return nil
				}
			}
		},
	}
	srv := handler.New(es)
	srv.Use(rejecter{})
	ws := transport.Websocket{
		KeepAlivePingInterval: cfg.keepAlive,
		PongOnlyInterval:      cfg.pongOnly,
		PingPongInterval:      cfg.pingPong,
		MissingPongOk:         true,
		InitTimeout:           cfg.initTimeout,
		Upgrader:              websocket.Upgrader{CheckOrigin: func(r *http.Request) bool { return true }},
		InitFunc: func(ctx context.Context, p transport.InitPayload) (context.Context, *transport.InitPayload, error) {
			if !cfg.initAccepts {
				return ctx, nil, errors.New("rejected by the init function")
			}
			s.add(entry{kind: "initok"})
			if cfg.detached {
				// only the transport's own close() may end the operations then, not net/http cancelling the request
				return context.WithoutCancel(ctx), nil, nil
			}
			return ctx, nil, nil
		},
		CloseFunc: func(ctx context.Context, code int) { s.add(entry{kind: "closefunc", code: code}) },
		ErrorFunc: func(ctx context.Context, err error) {},
	}
	srv.AddTransport(ws)
	srv.SetRecoverFunc(func(ctx context.Context, err any) error { return fmt.Errorf("P:%v", err) })
	baseCtx, cancel := context.WithCancel(context.Background())
	ts := httptest.NewUnstartedServer(http.HandlerFunc(func(w http.ResponseWriter, r *http.Request) {
		srv.ServeHTTP(w, r.WithContext(mergeCancel(r.Context(), baseCtx)))
	}))
	ts.Start()
	return ts, cancel
}

// rejecter is a handler extension that refuses operations named Reject with an ordinary (non-protocol) error,
// the way a complexity limit or a custom mutator does.
type rejecter struct{}

func (rejecter) ExtensionName() string                          { return "rejecter" }
func (rejecter) Validate(schema graphql.ExecutableSchema) error { return nil }
func (rejecter) MutateOperationContext(ctx context.Context, rc *graphql.OperationContext) *gqlerror.Error {
	if rc.OperationName == "Reject" {
		return gqlerror.Errorf("rejected by an extension")
	}
	return nil
}

// mergeCancel returns a context that is done when either parent is (the "server context cancelled" event).
func mergeCancel(a, b context.Context) context.Context {
	ctx, cancel := context.WithCancel(a)
	go func() {
		select {
		case <-b.Done():
			cancel()
		case <-ctx.Done():
		}
	}()
	return ctx
}

// ---- labels ------------------------------------------------------------------------------------------------

type label struct {
	K     string `json:"k"` // init start stop terminate ping pong servertype undecodable baddirection abrupt | emit end fail panic inittimeout ctxcancel
	ID    string `json:"id,omitempty"`
	Arg   string `json:"arg,omitempty"`   // init: none|object|notobject ; start: ok|badjson|rejectprotocol|rejectother
	Force bool   `json:"force,omitempty"` // issue the server event even if the harness believes the operation is not running
	Auto  bool   `json:"auto,omitempty"`  // an end the harness did not cause: the resolver returned because its context was cancelled
}

func (l label) coq() string {
	switch l.K {
	case "init":
		return "LC (CInit " + map[string]string{"none": "PNone", "object": "PObject", "notobject": "PNotObject"}[l.Arg] + ")"
	case "start":
		return fmt.Sprintf("LC (CStart %s %s)", gen.Str(l.ID), map[string]string{"ok": "SOk", "badjson": "SBadJson", "rejectprotocol": "SRejectProtocol", "rejectother": "SRejectOther"}[l.Arg])
	case "stop":
		return "LC (CStop " + gen.Str(l.ID) + ")"
	case "terminate":
		return "LC CTerminate"
	case "ping":
		return "LC CPing"
	case "pong":
		return "LC CPong"
	case "servertype":
		return "LC CServerType"
	case "undecodable":
		return "LC CUndecodable"
	case "baddirection":
		return "LC CBadDirection"
	case "abrupt":
		return "LC CAbruptClose"
	case "emit":
		return "LS (SEmit " + gen.Str(l.ID) + ")"
	case "end":
		return "LS (SEnd " + gen.Str(l.ID) + ")"
	case "fail":
		return "LS (SFailEnd " + gen.Str(l.ID) + ")"
	case "panic":
		return "LS (SPanic " + gen.Str(l.ID) + ")"
	case "inittimeout":
		return "LS SInitTimeout"
	case "ctxcancel":
		return "LS (SCtxCancel false)"
	}
	panic("label " + l.K)
}

// frame text per subprotocol
func frameText(transportWs bool, l label) string {
	start, stop := "start", "stop"
	if transportWs {
		start, stop = "subscribe", "complete"
	}
	switch l.K {
	case "init":
		switch l.Arg {
		case "object":
			return `{"type":"connection_init","payload":{"Authorization":"x"}}`
		case "notobject":
			return `{"type":"connection_init","payload":[1,2]}`
		}
		return `{"type":"connection_init"}`
	case "start":
		switch l.Arg {
		case "badjson":
			return fmt.Sprintf(`{"type":%q,"id":%q,"payload":"not an object"}`, start, l.ID)
		case "rejectother":
			return fmt.Sprintf(`{"type":%q,"id":%q,"payload":{"query":"subscription Reject { tick }","operationName":"Reject"}}`, start, l.ID)
		case "rejectprotocol":
			if l.ID == "2" || l.ID == "4" {
				return fmt.Sprintf(`{"type":%q,"id":%q,"payload":{"query":"subscription { nosuchfield }"}}`, start, l.ID)
			}
			return fmt.Sprintf(`{"type":%q,"id":%q,"payload":{"query":"subscription A { tick } subscription B { tick }","operationName":"C"}}`, start, l.ID)
		}
		return fmt.Sprintf(`{"type":%q,"id":%q,"payload":{"query":"subscription($k: String) { tick(k: $k) }","variables":{"k":%q}}}`, start, l.ID, l.ID)
	case "stop":
		return fmt.Sprintf(`{"type":%q,"id":%q}`, stop, l.ID)
	case "terminate":
		return `{"type":"connection_terminate"}`
	case "ping":
		return `{"type":"ping"}`
	case "pong":
		return `{"type":"pong"}`
	case "servertype":
		return `{"type":"ka"}`
	case "undecodable":
		return `{"type":`
	case "baddirection":
		return `{"type":"next","id":"9"}`
	}
	return ""
}

// ---- running one script --------------------------------------------------------------------------------------

type script struct {
	TransportWs bool    `json:"transport_ws"`
	InitAccepts bool    `json:"init_accepts"`
	Det         bool    `json:"deterministic"`
	Tick        string  `json:"tick"`                           // "", ka, pong, ping
	CloseFrame  bool    `json:"client_closes_with_close_frame"` // the client ends with a websocket Close control frame instead of dropping the socket
	Detached    bool    `json:"init_context_detached"`          // InitFunc returns a context not tied to the request's cancellation
	Labels      []label `json:"labels"`
	Sig         string  `json:"sig,omitempty"`
}

type observed struct {
	Labels  []label  `json:"labels_issued"`
	Frames  []string `json:"frames"`
	Events  []string `json:"events"`
	Closed  bool     `json:"closed"`
	Leaked  []string `json:"leaked,omitempty"`
	conn    []string
	ops     map[string][]string
	events  []string
	server  []string
	oporder []string
}

func outOfFrame(typ, id string) (string, bool) {
	switch typ {
	case "connection_ack":
		return "OAck", true
	case "ka":
		return "OKa", true
	case "connection_error":
		return "OConnError", true
	case "pong":
		return "OPong", true
	case "ping":
		return "OPing", true
	case "data", "next":
		return "OData " + gen.Str(id), false
	case "error":
		return "OError " + gen.Str(id), false
	case "complete":
		return "OComplete " + gen.Str(id), false
	}
	return "OConnError", true
}

func runScript(sc script) (*observed, error) {
	s := &session{changed: make(chan struct{}, 1), ctl: map[string]chan string{}}
	cfg := serverCfg{initAccepts: sc.InitAccepts, detached: sc.Detached}
	switch sc.Tick {
	case "ka":
		cfg.keepAlive = time.Millisecond
	case "pong":
		cfg.pongOnly = time.Millisecond
	case "ping":
		cfg.pingPong = time.Millisecond
	}
	for _, l := range sc.Labels {
		if l.K == "inittimeout" {
			cfg.initTimeout = 40 * time.Millisecond
		}
	}
	ts, cancelServerCtx := newServer(s, cfg)
	defer ts.Close()
	defer cancelServerCtx()
	proto := "graphql-ws"
	if sc.TransportWs {
		proto = "graphql-transport-ws"
	}
	d := websocket.Dialer{Subprotocols: []string{proto}}
	conn, _, err := d.Dial("ws"+strings.TrimPrefix(ts.URL, "http"), nil)
	if err != nil {
		return nil, err
	}
	var clientClosing atomic.Bool
	dropSocket := func() {
		if sc.CloseFrame {
			clientClosing.Store(true)
			_ = conn.WriteControl(websocket.CloseMessage, websocket.FormatCloseMessage(websocket.CloseNormalClosure, ""), time.Now().Add(time.Second))
			return
		}
		_ = conn.UnderlyingConn().Close()
	}
	readerDone := make(chan struct{})
	go func() {
		defer close(readerDone)
		for {
			_, b, err := conn.ReadMessage()
			if err != nil {
				code := 0
				var ce *websocket.CloseError
				if errors.As(err, &ce) {
					code = ce.Code
				}
				if clientClosing.Load() {
					code = 0 // the peer's echo of our own Close frame
				}
				s.add(entry{kind: "sockclosed", code: code})
				return
			}
			var f struct {
				Type string `json:"type"`
				ID   string `json:"id"`
			}
			_ = json.Unmarshal(b, &f)
			s.add(entry{kind: "frame", typ: f.Type, id: f.ID})
		}
	}()
	// what the harness believes about the session, only to know what to wait for
	running := false
	closed := false
	active := map[string]bool{}    // started, goroutine not ended
	cancelled := map[string]bool{} // context cancelled
	var issued []label
	isFrame := func(typ, id string) func(entry) bool {
		return func(e entry) bool {
			return e.kind == "frame" && e.id == id && (e.typ == typ || (typ == "data" && e.typ == "next"))
		}
	}
	waitCount := func(pred func(entry) bool, n int) {
		s.waitFor(func(l []entry) bool {
			c := 0
			for _, e := range l {
				if pred(e) {
					c++
				}
			}
			return c >= n
		}, 3*time.Second)
	}
	expectClose := func() {
		if sc.Det {
			waitCount(func(e entry) bool { return e.kind == "sockclosed" }, 1)
			waitCount(func(e entry) bool { return e.kind == "closefunc" }, 1)
		}
		closed = true
		running = false
	}
	autoEnd := func(id string) {
		// the resolver returns because its context was cancelled: the goroutine ends by itself
		issued = append(issued, label{K: "end", ID: id, Auto: true})
		if sc.Det && !closed {
			n := s.count(isFrame("complete", id))
			waitCount(isFrame("complete", id), n+1)
		}
		delete(active, id)
	}
	closeAll := func() {
		var ids []string
		for id := range active {
			ids = append(ids, id)
		}
		sort.Strings(ids)
		for _, id := range ids {
			if sc.Det {
				waitCount(func(e entry) bool { return e.kind == "cancel" && e.id == id }, 1)
			}
			autoEnd(id)
		}
	}
	for _, l := range sc.Labels {
		if !sc.Det {
			if gen0 := len(issued); gen0%3 == 2 {
				time.Sleep(300 * time.Microsecond)
			}
		}
		switch l.K {
		case "emit", "end", "fail", "panic":
			if (!active[l.ID] || cancelled[l.ID]) && !l.Force {
				continue // the script generator only addresses running operations; skip otherwise
			}
			issued = append(issued, l)
			s.channel(l.ID) <- l.K
			if sc.Det {
				switch l.K {
				case "emit":
					n := s.count(isFrame("data", l.ID))
					waitCount(isFrame("data", l.ID), n+1)
				case "end":
					n := s.count(isFrame("complete", l.ID))
					waitCount(isFrame("complete", l.ID), n+1)
				case "fail":
					waitCount(isFrame("error", l.ID), 1)
				case "panic":
					waitCount(isFrame("complete", l.ID), 1)
				}
				if l.K != "emit" {
					waitCount(func(e entry) bool { return e.kind == "cancel" && e.id == l.ID }, 1)
				}
			}
			if l.K != "emit" {
				delete(active, l.ID)
			}
			continue
		case "inittimeout":
			issued = append(issued, l)
			if !running && !closed {
				time.Sleep(60 * time.Millisecond)
				expectClose()
			}
			continue
		case "ctxcancel":
			issued = append(issued, l)
			cancelServerCtx()
			if !closed {
				expectClose()
				closeAll()
			}
			continue
		case "abrupt":
			issued = append(issued, l)
			dropSocket()
			if !closed {
				if sc.Det {
					waitCount(func(e entry) bool { return e.kind == "closefunc" }, 1)
				}
				closed = true
				running = false
				closeAll()
			}
			continue
		}
		// client frames
		if closed {
			continue
		}
		issued = append(issued, l)
		if err := conn.WriteMessage(websocket.TextMessage, []byte(frameText(sc.TransportWs, l))); err != nil {
			continue
		}
		switch {
		case !running:
			switch {
			case l.K == "init" && l.Arg != "notobject" && sc.InitAccepts:
				if sc.Det {
					waitCount(func(e entry) bool { return e.kind == "frame" && e.typ == "connection_ack" }, 1)
				}
				running = true
			default:
				expectClose()
			}
		case l.K == "start" && l.Arg == "ok":
			if sc.Det {
				waitCount(func(e entry) bool { return e.kind == "exec" && e.id == l.ID }, 1)
			}
			active[l.ID] = true
		case l.K == "start":
			if sc.Det {
				waitCount(isFrame("complete", l.ID), 1)
			}
		case l.K == "stop":
			if active[l.ID] && !cancelled[l.ID] {
				cancelled[l.ID] = true
				if sc.Det {
					waitCount(func(e entry) bool { return e.kind == "cancel" && e.id == l.ID }, 1)
				}
				autoEnd(l.ID)
			} else if sc.Det {
				s.settle(8 * time.Millisecond)
			}
		case l.K == "ping":
			if sc.Det {
				n := s.count(func(e entry) bool { return e.kind == "frame" && e.typ == "pong" })
				waitCount(func(e entry) bool { return e.kind == "frame" && e.typ == "pong" }, n+1)
			}
		case l.K == "pong":
			if sc.Det {
				s.settle(8 * time.Millisecond)
			}
		default: // terminate, init again, servertype, undecodable, baddirection
			expectClose()
			closeAll()
		}
	}
	// end of script: let everything still running finish, then close from the client side
	if !closed {
		if sc.Det {
			s.settle(10 * time.Millisecond)
		} else {
			time.Sleep(3 * time.Millisecond)
		}
		issued = append(issued, label{K: "abrupt"})
		dropSocket()
		waitCount(func(e entry) bool { return e.kind == "closefunc" }, 1)
		closed = true
		closeAll()
	}
	if !sc.Det {
		// everything that was executed must be cancelled and the callback must have fired: give it time
		waitCount(func(e entry) bool { return e.kind == "closefunc" }, 1)
		s.waitFor(func(l []entry) bool {
			ex, ca := 0, 0
			for _, e := range l {
				if e.kind == "exec" {
					ex++
				}
				if e.kind == "cancel" {
					ca++
				}
			}
			return ca >= ex
		}, 2*time.Second)
	}
	_ = conn.Close()
	select {
	case <-readerDone:
	case <-time.After(2 * time.Second):
	}
	s.settle(5 * time.Millisecond)
	o := &observed{Labels: issued, ops: map[string][]string{}}
	for _, e := range s.snapshot() {
		switch e.kind {
		case "frame":
			t, connLevel := outOfFrame(e.typ, e.id)
			o.Frames = append(o.Frames, e.typ+":"+e.id)
			if connLevel {
				o.conn = append(o.conn, t)
			} else {
				if _, ok := o.ops[e.id]; !ok {
					o.oporder = append(o.oporder, e.id)
				}
				o.ops[e.id] = append(o.ops[e.id], t)
			}
		case "exec":
			o.events = append(o.events, "EvExec "+gen.Str(e.id))
			o.server = append(o.server, "EvExec "+gen.Str(e.id))
		case "cancel":
			o.events = append(o.events, "EvCancel "+gen.Str(e.id))
		case "closefunc":
			o.events = append(o.events, fmt.Sprintf("EvCloseFunc %d", e.code))
			o.events = append(o.events, "EvSocketClosed")
		case "initok":
			o.server = append(o.server, "OAck")
		case "sockclosed":
			o.Closed = true
			if e.code != 0 {
				o.conn = append(o.conn, fmt.Sprintf("OCloseFrame %d", e.code))
			}
		}
	}
	o.Events = o.events
	return o, nil
}

// leakedGoroutines lists goroutines still inside the websocket transport.
func leakedGoroutines() []string {
	var out []string
	for i := 0; i < 50; i++ {
		out = out[:0]
		buf := make([]byte, 1<<20)
		n := runtime.Stack(buf, true)
		for _, g := range strings.Split(string(buf[:n]), "\n\n") {
			if strings.Contains(g, "transport.(*wsConnection)") || strings.Contains(g, "transport.Websocket.Do") {
				lines := strings.Split(g, "\n")
				for _, l := range lines {
					if strings.Contains(l, "transport.") {
						out = append(out, strings.TrimSpace(l))
						break
					}
				}
			}
		}
		if len(out) == 0 {
			return nil
		}
		time.Sleep(4 * time.Millisecond)
	}
	return out
}

// ---- script generation -------------------------------------------------------------------------------------

func genScript(r *gen.Rand, det bool) script {
	sc := script{TransportWs: r.Bool(), InitAccepts: !r.Chance(1, 14), Det: det, CloseFrame: r.Chance(1, 3), Detached: r.Chance(1, 2)}
	if !det {
		if sc.TransportWs {
			sc.Tick = gen.Pick(r, []string{"", "pong", "ping"})
		} else {
			sc.Tick = gen.Pick(r, []string{"", "ka"})
		}
	}
	ids := []string{"1", "2", "3", "4", "5", "6"}
	next := 0
	var running []string
	pre := r.Intn(16)
	// before the handshake
	switch {
	case pre == 0:
		sc.Labels = append(sc.Labels, label{K: "start", ID: "9", Arg: "ok"})
	case pre == 1:
		opts := []string{"stop", "undecodable", "abrupt", "inittimeout"}
		if sc.TransportWs {
			opts = append(opts, "ping", "baddirection")
		} else {
			opts = append(opts, "terminate", "servertype")
		}
		sc.Labels = append(sc.Labels, label{K: gen.Pick(r, opts), ID: "9"})
	}
	sc.Labels = append(sc.Labels, label{K: "init", Arg: gen.Pick(r, []string{"none", "none", "object", "object", "object", "object", "object", "object", "object", "notobject"})})
	n := 2 + r.Intn(9)
	for i := 0; i < n; i++ {
		k := r.Intn(20)
		switch {
		case k < 5 && next < len(ids):
			arg := "ok"
			if r.Chance(1, 5) {
				arg = gen.Pick(r, []string{"badjson", "rejectprotocol", "rejectother"})
			}
			id := ids[next]
			next++
			sc.Labels = append(sc.Labels, label{K: "start", ID: id, Arg: arg})
			if arg == "ok" {
				running = append(running, id)
			}
		case k < 10 && len(running) > 0:
			sc.Labels = append(sc.Labels, label{K: "emit", ID: gen.Pick(r, running)})
		case k < 13 && len(running) > 0:
			j := r.Intn(len(running))
			sc.Labels = append(sc.Labels, label{K: gen.Pick(r, []string{"end", "end", "fail", "panic"}), ID: running[j]})
			running = append(running[:j], running[j+1:]...)
		case k < 15:
			id := "7"
			if len(running) > 0 && r.Chance(3, 4) {
				j := r.Intn(len(running))
				id = running[j]
				running = append(running[:j], running[j+1:]...)
			}
			sc.Labels = append(sc.Labels, label{K: "stop", ID: id})
		case k < 16:
			if sc.TransportWs {
				sc.Labels = append(sc.Labels, label{K: gen.Pick(r, []string{"ping", "pong"})})
			}
		case k < 17 && r.Chance(1, 2):
			opts := []string{"undecodable", "abrupt", "init"}
			if sc.TransportWs {
				opts = append(opts, "baddirection")
			} else {
				opts = append(opts, "terminate", "servertype")
			}
			kind := gen.Pick(r, opts)
			if det && kind == "ctxcancel" && len(running) > 0 {
				continue
			}
			sc.Labels = append(sc.Labels, label{K: kind, Arg: "none"})
			return sc
		case k < 18 && r.Chance(1, 3) && (len(running) == 0 || !det) && !sc.Detached:
			sc.Labels = append(sc.Labels, label{K: "ctxcancel"})
			return sc
		}
	}
	return sc
}

type caseDescr struct {
	Script   script    `json:"script"`
	Observed *observed `json:"observed"`
	Sig      string    `json:"sig,omitempty"`
}

func caseCoq(sc script, o *observed) string {
	proto := "GraphqlWs"
	tick := "TKa"
	if sc.TransportWs {
		proto = "TransportWs"
		tick = "TPong"
		if sc.Tick == "ping" {
			tick = "TPing"
		}
	}
	var labels []string
	for _, l := range o.Labels {
		labels = append(labels, l.coq())
	}
	var ops []string
	for _, id := range o.oporder {
		ops = append(ops, fmt.Sprintf("(%s, %s)", gen.Str(id), gen.List(o.ops[id])))
	}
	return fmt.Sprintf("{| k_cfg := {| w_proto := %s; w_init_accepts := %s; w_tick := %s |}; k_det := %s; k_labels := %s; k_conn := %s; k_ops := %s; k_events := %s; k_server_order := %s; k_closed := %s |}",
		proto, gen.Bool(sc.InitAccepts), tick, gen.Bool(sc.Det), gen.List(labels), gen.List(o.conn), gen.List(ops), gen.List(o.events), gen.List(o.server), gen.Bool(o.Closed))
}

func Run(c *gen.Ctx) error {
	r := gen.NewRand(c.Seed)
	meta := &gen.Meta{Property: "C11", Distribution: map[string]any{}}
	nDet, nRacy := 160, 160
	if c.Thorough() {
		nDet, nRacy = 1500, 3000
	}
	cf := &gen.CaseFile{Dir: c.OutDir, Prop: "C11", Kind: "ws", Requires: []string{"Base.Prelude", "Model.WsProto", "Corr.Corr_C11"}, Type: "c11_case",
		Checks: []gen.Check{{Label: "corr", Fn: "c11_corr"}, {Label: "mon", Fn: "c11_mon"}, {Label: "monmodel", Fn: "c11_monmodel"}}, Shard: 600}
	var scripts []script
	// pinned: misbehaviour before the handshake, the repaired bad init payload, rejected init, every way of ending
	pinned := []script{
		{Det: true, InitAccepts: true, Labels: []label{{K: "start", ID: "1", Arg: "ok"}}},
		{Det: true, InitAccepts: true, Labels: []label{{K: "init", Arg: "notobject"}}},
		{Det: true, InitAccepts: true, TransportWs: true, Labels: []label{{K: "init", Arg: "notobject"}}},
		{Det: true, InitAccepts: false, Labels: []label{{K: "init", Arg: "object"}, {K: "start", ID: "1", Arg: "ok"}}},
		{Det: true, InitAccepts: true, Labels: []label{{K: "init", Arg: "none"}, {K: "start", ID: "1", Arg: "ok"}, {K: "emit", ID: "1"}, {K: "emit", ID: "1"}, {K: "stop", ID: "1"}, {K: "terminate"}}},
		{Det: true, InitAccepts: true, TransportWs: true, Labels: []label{{K: "init", Arg: "none"}, {K: "start", ID: "1", Arg: "ok"}, {K: "start", ID: "2", Arg: "ok"}, {K: "emit", ID: "2"}, {K: "panic", ID: "1"}, {K: "fail", ID: "2"}, {K: "ping"}, {K: "abrupt"}}},
		{Det: true, InitAccepts: true, Labels: []label{{K: "init", Arg: "none"}, {K: "start", ID: "1", Arg: "ok"}, {K: "start", ID: "2", Arg: "ok"}, {K: "emit", ID: "1"}, {K: "terminate"}}},
		{Det: true, InitAccepts: true, Labels: []label{{K: "inittimeout"}}},
		{Det: true, InitAccepts: true, TransportWs: true, Labels: []label{{K: "init", Arg: "object"}, {K: "start", ID: "1", Arg: "rejectother"}, {K: "start", ID: "2", Arg: "badjson"}, {K: "start", ID: "3", Arg: "rejectprotocol"}, {K: "ctxcancel"}}},
	}
	scripts = append(scripts, pinned...)
	// the kept finding: a second start with an id that is still running
	scripts = append(scripts, script{Det: false, InitAccepts: true, Sig: "duplicate-active-operation-id", Labels: []label{
		{K: "init", Arg: "none"}, {K: "start", ID: "1", Arg: "ok"}, {K: "start", ID: "1", Arg: "ok"}, {K: "stop", ID: "1"},
		{K: "emit", ID: "1", Force: true}, {K: "emit", ID: "1", Force: true}}})
	dr := r.Fork(1)
	for i := 0; i < nDet; i++ {
		scripts = append(scripts, genScript(dr, true))
	}
	rr := r.Fork(2)
	for i := 0; i < nRacy; i++ {
		scripts = append(scripts, genScript(rr, false))
	}
	results := make([]*observed, len(scripts))
	errs := make([]error, len(scripts))
	var wg sync.WaitGroup
	sem := make(chan struct{}, 8)
	for i := range scripts {
		wg.Add(1)
		go func(i int) {
			defer wg.Done()
			sem <- struct{}{}
			defer func() { <-sem }()
			t0 := time.Now()
			results[i], errs[i] = runScript(scripts[i])
			if d := time.Since(t0); d > 1500*time.Millisecond && results[i] != nil {
				b, _ := json.Marshal(scripts[i])
				fmt.Fprintf(os.Stderr, "slow session %d (%v): %s issued=%d\n", i, d, b, len(results[i].Labels))
			}
		}(i)
	}
	wg.Wait()
	lcf := &gen.CaseFile{Dir: c.OutDir, Prop: "C11", Kind: "lock", Requires: []string{"Base.Prelude", "Model.WsLock", "Corr.Corr_C11"}, Type: "wslock_case",
		Checks: []gen.Check{{Label: "corr", Fn: "wslock_accepts"}, {Label: "mon", Fn: "wslock_mon"}, {Label: "monmodel", Fn: "wslock_monmodel"}}, Shard: 10}
	var ldescr []any
	for k := 0; k < 4; k++ {
		pingFlood(meta, lcf, &ldescr, 1+k%2)
	}
	if err := meta.AddCaseFile(lcf, ldescr); err != nil {
		return err
	}
	leaked := leakedGoroutines()
	if len(leaked) > 0 {
		meta.Direct = append(meta.Direct, gen.DirectFinding{Signature: "websocket-goroutines-left-after-close", What: fmt.Sprintf("%d goroutine(s) of the websocket transport still alive after every session was closed: %v", len(leaked), leaked), Replay: leaked})
	}
	var descr []any
	kinds := map[string]int{}
	lens := map[int]int{}
	protos := map[string]int{}
	distinct := map[string]bool{}
	for i, sc := range scripts {
		if errs[i] != nil {
			return errs[i]
		}
		o := results[i]
		cf.Add(caseCoq(sc, o))
		descr = append(descr, caseDescr{Script: sc, Observed: o, Sig: sc.Sig})
		for _, l := range o.Labels {
			kinds[l.K]++
		}
		lens[len(o.Labels)]++
		if sc.TransportWs {
			protos["graphql-transport-ws"]++
		} else {
			protos["graphql-ws"]++
		}
		b, _ := json.Marshal(sc)
		distinct[string(b)] = true
	}
	if err := meta.AddCaseFile(cf, descr); err != nil {
		return err
	}
	meta.Distribution["labels_issued"] = kinds
	meta.Distribution["session_lengths"] = lens
	meta.Distribution["subprotocols"] = protos
	meta.Distribution["stepwise_sessions"] = nDet + len(pinned)
	meta.Distribution["free_running_sessions"] = nRacy
	meta.Evaluations = len(scripts)
	meta.DistinctNontrivial = len(distinct)
	meta.Rule = "sessions over a real gorilla connection to handler.Server + transport.Websocket (InitFunc, CloseFunc, ErrorFunc installed; controllable subscription resolver), both subprotocols. 9 pinned sessions + random sessions over {init (no payload / object / not an object), start(id) (valid / undecodable payload / protocol-kind rejection / validation rejection), stop(id) (running or unknown id), ping, pong, terminate, frame of a server-only type, undecodable frame, wrong-direction frame, abrupt close} interleaved with {resolver emits, ends, reports a subscription error, panics; init timeout; server context cancelled}, also before the handshake and with a rejecting InitFunc. Stepwise sessions await each effect (frames per operation and connection-level frames and events are compared with the model); free-running sessions fire the same alphabet without waiting, with 1 ms keep-alive / pong / ping tickers, and are judged by the monitors only. Each operation id is used once per session. After all sessions: no goroutine of the transport may be left."
	if len(descr) > 12 {
		meta.Samples = append(meta.Samples, descr[4], descr[12])
	}
	return meta.Write(c.OutDir)
}
