package c11

import (
	"context"
	"encoding/json"
	"fmt"
	"net"
	"net/http"
	"net/http/httptest"
	"strings"
	"sync"
	"sync/atomic"
	"time"

	"github.com/gorilla/websocket"
	"github.com/vektah/gqlparser/v2/ast"

	"github.com/99designs/gqlgen/graphql"
	"github.com/99designs/gqlgen/graphql/handler"
	"github.com/99designs/gqlgen/graphql/handler/transport"

	"verifharness/gen"
)

// a peer that reads slowly: every write of the server takes a while, so that writes issued by different goroutines
// of one connection overlap in time unless the transport serialises them
type slowConn struct {
	net.Conn
	d time.Duration
}

func (c slowConn) Write(b []byte) (int, error) { time.Sleep(c.d); return c.Conn.Write(b) }

type slowListener struct {
	net.Listener
	d time.Duration
}

func (l slowListener) Accept() (net.Conn, error) {
	c, err := l.Listener.Accept()
	if err != nil {
		return nil, err
	}
	return slowConn{c, l.d}, nil
}

type lockFrame struct {
	Writer int    `json:"writer"`
	Kind   string `json:"kind"`
	N      int    `json:"n"`
}

type lockCase struct {
	Ops      int         `json:"operations"`
	Results  int         `json:"results_per_operation"`
	Pings    int         `json:"pings"`
	Observed []lockFrame `json:"observed"`
}

// pingFlood: nOps subscriptions produce results while the client sends protocol pings (graphql-transport-ws) and the
// ping ticker runs: every frame must arrive whole, all results of an operation then its one complete, a pong per
// ping, and the transport must not report an error or hang.  The received frames, each attributed to the goroutine
// that writes it (0: read loop - acknowledgement and pongs; 1..nOps: the operations; nOps+1: the ping ticker), are
// also a case for the lock model (Model.WsLock, Corr_C11.wslock_*).
func pingFlood(meta *gen.Meta, cf *gen.CaseFile, descr *[]any, nOps int) int {
	const results, pings = 60, 60
	var errorFuncCalls int64
	es := &graphql.ExecutableSchemaMock{
		SchemaFunc: func() *ast.Schema { return schema },
		ComplexityFunc: func(ctx context.Context, typeName, fieldName string, childComplexity int, args map[string]any) (int, bool) {
			return 0, false
		},
		ExecFunc: func(ctx context.Context) graphql.ResponseHandler {
			k := 0
			return func(ctx context.Context) *graphql.Response {
				if k >= results {
					return nil
				}
				k++
				time.Sleep(100 * time.Microsecond)
				return &graphql.Response{Data: json.RawMessage(fmt.Sprintf(`{"n":%d}`, k))}
			}
		},
	}
	srv := handler.New(es)
	srv.AddTransport(transport.Websocket{PingPongInterval: 2 * time.Millisecond, MissingPongOk: true,
		Upgrader:  websocket.Upgrader{CheckOrigin: func(r *http.Request) bool { return true }},
		ErrorFunc: func(ctx context.Context, err error) { atomic.AddInt64(&errorFuncCalls, 1) }})
	ts := httptest.NewUnstartedServer(srv)
	ts.Listener = slowListener{ts.Listener, 250 * time.Microsecond}
	ts.Start()
	defer ts.Close()
	conn, _, err := (&websocket.Dialer{Subprotocols: []string{"graphql-transport-ws"}}).Dial("ws"+strings.TrimPrefix(ts.URL, "http"), nil)
	if err != nil {
		return 0
	}
	defer conn.Close()
	var wmu sync.Mutex
	send := func(s string) {
		wmu.Lock()
		_ = conn.WriteMessage(websocket.TextMessage, []byte(s))
		wmu.Unlock()
	}
	send(`{"type":"connection_init"}`)
	for op := 1; op <= nOps; op++ {
		send(fmt.Sprintf(`{"type":"subscribe","id":"%d","payload":{"query":"subscription { tick }"}}`, op))
	}
	go func() {
		for i := 1; i <= pings; i++ {
			send(fmt.Sprintf(`{"type":"ping","payload":{"n":%d}}`, i))
			time.Sleep(150 * time.Microsecond)
		}
	}()
	next, pongs, completes, malformed, serverPings := 0, 0, 0, 0, 0
	deadline := time.Now().Add(8 * time.Second)
	var problems []string
	var seq []lockFrame
	completed := map[string]bool{}
	for completes < nOps || pongs < pings {
		_ = conn.SetReadDeadline(deadline)
		_, b, err := conn.ReadMessage()
		if err != nil {
			problems = append(problems, fmt.Sprintf("the connection ended or hung before everything arrived: %v", err))
			break
		}
		var f struct {
			Type    string `json:"type"`
			ID      string `json:"id"`
			Payload struct {
				N    int `json:"n"`
				Data struct {
					N int `json:"n"`
				} `json:"data"`
			} `json:"payload"`
		}
		if json.Unmarshal(b, &f) != nil {
			malformed++
			continue
		}
		w := 0
		fmt.Sscanf(f.ID, "%d", &w)
		switch f.Type {
		case "next":
			next++
			if completed[f.ID] {
				problems = append(problems, "a result after the completion")
			}
			seq = append(seq, lockFrame{w, "next", f.Payload.Data.N})
		case "complete":
			completes++
			completed[f.ID] = true
			seq = append(seq, lockFrame{w, "complete", 0})
		case "pong":
			pongs++
			seq = append(seq, lockFrame{0, "pong", f.Payload.N})
		case "connection_ack":
			seq = append(seq, lockFrame{0, "connection_ack", 0})
		case "ping":
			serverPings++
			seq = append(seq, lockFrame{nOps + 1, "ping", 0})
			send(`{"type":"pong"}`)
		default:
			problems = append(problems, "unexpected frame "+string(b))
		}
	}
	if malformed > 0 {
		problems = append(problems, fmt.Sprintf("%d frames that are not JSON", malformed))
	}
	if next != results*nOps || completes != nOps {
		problems = append(problems, fmt.Sprintf("%d results and %d completions (expected %d and %d)", next, completes, results*nOps, nOps))
	}
	if pongs != pings {
		problems = append(problems, fmt.Sprintf("%d pongs for %d pings", pongs, pings))
	}
	if n := atomic.LoadInt64(&errorFuncCalls); n > 0 {
		problems = append(problems, fmt.Sprintf("the transport reported %d error(s)", n))
	}
	if len(problems) > 0 {
		meta.Direct = append(meta.Direct, gen.DirectFinding{Signature: "frames-written-concurrently-or-lost",
			What:   fmt.Sprintf("%d subscription(s) producing results while the client pings, slow peer: ", nOps) + strings.Join(problems, "; "),
			Replay: map[string]any{"operations": nOps, "results": results, "pings": pings, "observed": map[string]int{"next": next, "pong": pongs, "complete": completes}}})
	}
	// the case for the lock model: each writer's program as the protocol fixes it, and what was seen on the wire
	fr := func(kind string, n int) string { return fmt.Sprintf("(%s, %s)", gen.Str(kind), gen.Z(int64(n))) }
	var progs []string
	w0 := []string{fr("connection_ack", 0)}
	for i := 1; i <= pings; i++ {
		w0 = append(w0, fr("pong", i))
	}
	progs = append(progs, gen.List(w0))
	for op := 1; op <= nOps; op++ {
		var w []string
		for i := 1; i <= results; i++ {
			w = append(w, fr("next", i))
		}
		progs = append(progs, gen.List(append(w, fr("complete", 0))))
	}
	var wt []string
	for i := 0; i < serverPings; i++ {
		wt = append(wt, fr("ping", 0))
	}
	progs = append(progs, gen.List(wt))
	var out []string
	for _, x := range seq {
		out = append(out, fmt.Sprintf("(%s, %s)", gen.Nat(x.Writer), fr(x.Kind, x.N)))
	}
	cf.Add(fmt.Sprintf("{| wl_progs := %s; wl_out := %s |}", gen.List(progs), gen.List(out)))
	*descr = append(*descr, lockCase{Ops: nOps, Results: results, Pings: pings, Observed: seq})
	return 1
}
