package c11

import (
	"context"
	"encoding/json"
	"fmt"
	"net"
	"net/http"
	"net/http/httptest"
	"strings"
	"sync"
	"sync/atomic"
	"time"

	"github.com/gorilla/websocket"
	"github.com/vektah/gqlparser/v2/ast"

	"github.com/99designs/gqlgen/graphql"
	"github.com/99designs/gqlgen/graphql/handler"
	"github.com/99designs/gqlgen/graphql/handler/transport"

	"verifharness/gen"
)

// a peer that reads slowly: every write of the server takes a while, so that writes issued by different goroutines
// of one connection overlap in time unless the transport serialises them
type slowConn struct {
	net.Conn
	d time.Duration
}

func (c slowConn) Write(b []byte) (int, error) { time.Sleep(c.d); return c.Conn.Write(b) }

type slowListener struct {
	net.Listener
	d time.Duration
}

func (l slowListener) Accept() (net.Conn, error) {
	c, err := l.Listener.Accept()
	if err != nil {
		return nil, err
	}
	return slowConn{c, l.d}, nil
}

// pingFlood: one subscription produces results while the client sends protocol pings (graphql-transport-ws) and the
// keep-alive tickers run: every frame must arrive whole, all results then one complete, a pong per ping, and the
// transport must not report an error or hang.
func pingFlood(meta *gen.Meta) int {
	const results, pings = 60, 60
	var errorFuncCalls int64
	es := &graphql.ExecutableSchemaMock{
		SchemaFunc: func() *ast.Schema { return schema },
		ComplexityFunc: func(ctx context.Context, typeName, fieldName string, childComplexity int, args map[string]any) (int, bool) {
			return 0, false
		},
		ExecFunc: func(ctx context.Context) graphql.ResponseHandler {
			k := 0
			return func(ctx context.Context) *graphql.Response {
				if k >= results {
					return nil
				}
				k++
				time.Sleep(100 * time.Microsecond)
				return &graphql.Response{Data: json.RawMessage(fmt.Sprintf(`{"n":%d}`, k))}
			}
		},
	}
	srv := handler.New(es)
	srv.AddTransport(transport.Websocket{PingPongInterval: 2 * time.Millisecond, MissingPongOk: true,
		Upgrader:  websocket.Upgrader{CheckOrigin: func(r *http.Request) bool { return true }},
		ErrorFunc: func(ctx context.Context, err error) { atomic.AddInt64(&errorFuncCalls, 1) }})
	ts := httptest.NewUnstartedServer(srv)
	ts.Listener = slowListener{ts.Listener, 250 * time.Microsecond}
	ts.Start()
	defer ts.Close()
	conn, _, err := (&websocket.Dialer{Subprotocols: []string{"graphql-transport-ws"}}).Dial("ws"+strings.TrimPrefix(ts.URL, "http"), nil)
	if err != nil {
		return 0
	}
	defer conn.Close()
	var wmu sync.Mutex
	send := func(s string) {
		wmu.Lock()
		_ = conn.WriteMessage(websocket.TextMessage, []byte(s))
		wmu.Unlock()
	}
	send(`{"type":"connection_init"}`)
	send(`{"type":"subscribe","id":"1","payload":{"query":"subscription { tick }"}}`)
	go func() {
		for i := 0; i < pings; i++ {
			send(`{"type":"ping"}`)
			time.Sleep(150 * time.Microsecond)
		}
	}()
	next, pongs, completes, malformed := 0, 0, 0, 0
	deadline := time.Now().Add(6 * time.Second)
	var problems []string
	for completes == 0 || pongs < pings {
		_ = conn.SetReadDeadline(deadline)
		_, b, err := conn.ReadMessage()
		if err != nil {
			problems = append(problems, fmt.Sprintf("the connection ended or hung before everything arrived: %v", err))
			break
		}
		var f struct {
			Type string `json:"type"`
			ID   string `json:"id"`
		}
		if json.Unmarshal(b, &f) != nil {
			malformed++
			continue
		}
		switch f.Type {
		case "next":
			next++
			if completes > 0 {
				problems = append(problems, "a result after the completion")
			}
		case "complete":
			completes++
		case "pong":
			pongs++
		case "ping", "connection_ack":
			if f.Type == "ping" {
				send(`{"type":"pong"}`)
			}
		default:
			problems = append(problems, "unexpected frame "+string(b))
		}
	}
	if malformed > 0 {
		problems = append(problems, fmt.Sprintf("%d frames that are not JSON", malformed))
	}
	if next != results || completes != 1 {
		problems = append(problems, fmt.Sprintf("%d results and %d completions (expected %d and 1)", next, completes, results))
	}
	if pongs != pings {
		problems = append(problems, fmt.Sprintf("%d pongs for %d pings", pongs, pings))
	}
	if n := atomic.LoadInt64(&errorFuncCalls); n > 0 {
		problems = append(problems, fmt.Sprintf("the transport reported %d error(s)", n))
	}
	if len(problems) > 0 {
		meta.Direct = append(meta.Direct, gen.DirectFinding{Signature: "frames-written-concurrently-or-lost",
			What:   "one subscription producing results while the client pings, slow peer: " + strings.Join(problems, "; "),
			Replay: map[string]any{"results": results, "pings": pings, "observed": map[string]int{"next": next, "pong": pongs, "complete": completes}}})
	}
	return 1
}
