// Package c13: @defer changes delivery, not content.  Operations with @defer on inline fragments and
// spreads (nested, inside lists, if: true/false/variable, shared and distinct labels) x oracle failures
// inside and outside groups x completion orders induced by delay plans, on probe servers generated from
// the current templates; every payload is recorded in arrival order.
package c13

import (
	"fmt"
	"strings"

	"github.com/vektah/gqlparser/v2"
	"github.com/vektah/gqlparser/v2/ast"
	"github.com/vektah/gqlparser/v2/validator"

	"verifharness/engines/xeng"
	"verifharness/gen"
	"verifharness/qgen"
)

var corpus = []string{
	`query Op { a { a1 ... @defer { name a2 } } }`,
	`query Op { a { a1 ... @defer(label: "x") { name } ... @defer(label: "y") { a2 strictPeer { a1 } } } }`,
	`query Op { as { id ... @defer(label: "x") { a1 kids { id } } } scalar }`,
	`query Op { a { ... @defer { peer { id ... @defer { name } } } } strict }`,
	`query Op { a { ... @defer(label: "outer") { name strictPeer { a1 ... @defer(label: "inner") { a2 name } } } } }`,
	`query Op { nodes { id ... on A @defer { as { a1 } } } }`,
	`query Op($c: Boolean! = false) { a { a1 ... @defer(if: $c) { name } ...F @defer(if: true, label: "f") } } fragment F on A { a2 inl }`,
	`query Op { a { a1 ... @defer { a1 name } } }`,
	`query Op { ... @defer { scalar a { a1 } } strict }`,
	`query Op { b { other { a1 ... @defer { a1 strictPeer { a1 } } } } }`,
	// one label group whose fields are not adjacent in collection order, next to another group and plain fields
	`query Op { a { id ... @defer(label: "x") { a1 } name ... @defer(label: "y") { inl } ... @defer(label: "x") { a2 } } }`,
	`query Op { as { ... @defer(label: "x") { a1 } id ... @defer(label: "x") { a2 name } } }`,
	// one field deferred by two fragments, the first without a label (the label seen last is the group's), and an
	// unlabelled fragment inside a labelled one; the operations after them in the same process defer without labels
	`query Op { a { id ... @defer { a1 } ... @defer(label: "x") { a1 a2 } } }`,
	`query Op { a { id ... @defer(label: "outer") { name ... @defer { a2 } } } }`,
	`query Op { a { a1 ... @defer { name } } b { id ... @defer { other { id } } } }`,
	// the if argument is nullable: null (a literal, or a variable without a value) means what its default means
	`query Op { a { a1 ... @defer(if: null) { name } ...F @defer(if: null, label: "f") } } fragment F on A { a2 }`,
	`query Op($c: Boolean) { a { a1 ... @defer(if: $c) { name } ...F @defer(if: $c, label: "f") } } fragment F on A { a2 }`,
}

type descr struct {
	Query     string      `json:"query"`
	Oracle    xeng.Oracle `json:"oracle"`
	Config    string      `json:"config"`
	Responses []string    `json:"responses"`
	Sig       string      `json:"sig,omitempty"`
}

func Run(c *gen.Ctx) error {
	r := gen.NewRand(c.Seed)
	meta := &gen.Meta{Property: "C13"}
	cfgs := xeng.QuickConfigs
	nops, perOp := 40, 3
	if c.Thorough() {
		cfgs = xeng.ThoroughConfigs
		nops, perOp = 600, 5
	}
	probes, err := xeng.BuildProbes(xeng.ProbeSchema, cfgs, nil)
	if err != nil {
		return err
	}
	for _, p := range probes {
		if p.Built.GenErr != "" || p.Built.BuildErr != "" {
			meta.Direct = append(meta.Direct, gen.DirectFinding{Signature: "probe-does-not-build", What: "probe server failed to build for " + p.Cfg.Name, Replay: map[string]any{"generate": p.Built.GenErr, "build": p.Built.BuildErr}})
			meta.Evaluations = 1
			return meta.Write(c.OutDir)
		}
	}
	type genOp struct {
		query string
		raw   map[string]any
		vars  map[string]any
		op    *ast.OperationDefinition
	}
	var ops []genOp
	load := func(q string, raw map[string]any) bool {
		doc, errs := gqlparser.LoadQuery(xeng.Schema, q)
		if errs != nil {
			return false
		}
		op := doc.Operations[0]
		vars, verr := validator.VariableValues(xeng.Schema, op, raw)
		if verr != nil {
			return false
		}
		ops = append(ops, genOp{q, raw, vars, op})
		return true
	}
	for _, q := range corpus {
		if !load(q, nil) {
			return fmt.Errorf("corpus operation does not validate: %s", q)
		}
	}
	rq := r.Fork(1)
	invalid := 0
	for len(ops) < nops+len(corpus) {
		g := qgen.New(rq, xeng.Schema, qgen.Options{MaxDepth: 3 + rq.Intn(3), MaxWidth: 1 + rq.Intn(4), SkipInclude: rq.Chance(1, 3), Defer: true, Typename: true, Variables: true,
			FragmentRate: 45 + rq.Intn(30), AliasRate: 15})
		q, raw := g.Operation(ast.Query)
		if !strings.Contains(q, "@defer") {
			continue
		}
		if !load(q, raw) {
			invalid++
		}
	}
	// round 1: default oracle, to learn the invocation log
	var round1 []xeng.Case
	for i, op := range ops {
		round1 = append(round1, xeng.Case{ID: i, Query: op.query, Variables: op.raw, Oracle: xeng.NewOracle(), TimeoutMs: 4000})
	}
	res1, err := xeng.RunAll(probes[0].Built.Bin, round1)
	if err != nil {
		return err
	}
	type planned struct {
		op  int
		orc xeng.Oracle
	}
	var plan []planned
	ro := r.Fork(2)
	for i := range ops {
		plan = append(plan, planned{i, xeng.NewOracle()})
		log := res1[i].Log
		for k := 0; k < perOp && len(log) > 0; k++ {
			o := xeng.NewOracle()
			// faults
			for f := ro.Intn(3); f > 0; f-- {
				l := gen.Pick(ro, log)
				if l[0] != "r" {
					continue
				}
				fd := xeng.Schema.Types[l[2]].Fields.ForName(l[3])
				named := xeng.Schema.Types[fd.Type.Name()]
				choices := []string{"error", "panic"}
				if !(fd.Type.NonNull && fd.Type.Elem == nil && named.Kind == ast.Scalar) {
					choices = append(choices, "null")
				}
				o.Fields[l[1]] = xeng.FieldPlan{O: gen.Pick(ro, choices), Tag: fmt.Sprintf("t%d", ro.Intn(50))}
			}
			// completion order of the groups: delays on resolvers
			for _, l := range log {
				if l[0] == "r" && ro.Chance(1, 3) {
					fp := o.Fields[l[1]]
					fp.Delay = 1 + ro.Intn(8)
					o.Fields[l[1]] = fp
				}
			}
			plan = append(plan, planned{i, o})
		}
	}
	// every single failing resolver of the pinned operations (in particular: a non-null field inside a deferred
	// group, whose failure must null the group and nothing else)
	for i := range corpus {
		if i >= len(res1) {
			break
		}
		seen := map[string]bool{}
		for _, l := range res1[i].Log {
			if l[0] != "r" || seen[l[1]] {
				continue
			}
			seen[l[1]] = true
			o := xeng.NewOracle()
			o.Fields[l[1]] = xeng.FieldPlan{O: "error", Tag: "single"}
			plan = append(plan, planned{i, o})
		}
	}
	// pinned: a slow sibling in the outer group lets the nested group finish first
	for i, q := range corpus {
		if strings.Contains(q, `label: "outer"`) {
			o := xeng.NewOracle()
			o.Fields["a.name"] = xeng.FieldPlan{Delay: 20}
			plan = append(plan, planned{i, o})
		}
	}
	cf := &gen.CaseFile{Dir: c.OutDir, Prop: "C13", Kind: "defer", Requires: []string{"Base.Prelude", "Model.Exec", "Model.Defer", "Corr.Corr_C01", "Corr.Corr_C13"}, Type: "defer_case",
		Checks: []gen.Check{{Label: "corr", Fn: "defer_corr"}, {Label: "mon", Fn: "defer_monitor"}, {Label: "monorphan", Fn: "defer_monitor_no_orphans"}, {Label: "monorder", Fn: "defer_monitor_modulo_order"},
			{Label: "monboth", Fn: "defer_monitor_modulo_order_no_orphans"}, {Label: "monmodel", Fn: "defer_monitor_on_model"}}, Shard: 50}
	cf.Preamble = "Definition sch : schema := " + xeng.SchemaCoq(xeng.Schema) + "."
	var cases []xeng.Case
	for i, p := range plan {
		cases = append(cases, xeng.Case{ID: i, Query: ops[p.op].query, Variables: ops[p.op].raw, Oracle: p.orc, TimeoutMs: 4000})
	}
	var descrs []any
	distinct := map[string]bool{}
	stats := map[string]int{}
	selTerms := map[int]string{}
	for _, pr := range probes {
		results, err := xeng.RunAll(pr.Built.Bin, cases)
		if err != nil {
			return err
		}
		for i, p := range plan {
			res := results[i]
			op := ops[p.op]
			if res.Crashed || res.Hang || len(res.Responses) == 0 {
				meta.Direct = append(meta.Direct, gen.DirectFinding{Signature: "probe-crash-or-hang", What: "the generated server crashed, hung or gave no response on a deferred operation",
					Replay: map[string]any{"config": pr.Cfg.Name, "query": op.query, "oracle": p.orc, "crashed": res.Crashed, "hang": res.Hang}})
				continue
			}
			if _, ok := selTerms[p.op]; !ok {
				selTerms[p.op] = xeng.SelsCoq(op.op.SelectionSet, op.vars)
			}
			all := res.All()
			first := all[0]
			var pls, raw []string
			for _, x := range all {
				hn := "None"
				if x.HasNext != nil {
					hn = "(Some " + gen.Bool(*x.HasNext) + ")"
				}
				pls = append(pls, fmt.Sprintf("{| op_path := %s; op_label := %s; op_data := %s; op_errors := %s; op_has_next := %s |}",
					xeng.PathCoq(x.PathString()), gen.Str(x.Label), x.DataTerm(), x.ErrorsTerm(), hn))
			}
			for _, rr := range res.Responses {
				raw = append(raw, string(rr))
			}
			term := fmt.Sprintf("{| dc_exec := {| xc_schema := sch; xc_root := \"Query\"%%string; xc_sels := %s; xc_oracle := %s; xc_data := %s; xc_errors := %s; xc_log := %s; xc_recovers := %d%%nat; xc_order := [] |}; dc_payloads := %s |}",
				selTerms[p.op], p.orc.Effective(res.Ignored).Coq(), first.DataTerm(), first.ErrorsTerm(), xeng.LogCoq(res.Log), res.Recovers, gen.List(pls))
			cf.Add(term)
			descrs = append(descrs, descr{op.query, p.orc, pr.Cfg.Name, raw, ""})
			stats[fmt.Sprintf("payloads_%d", len(all))]++
			if len(all) > 2 {
				distinct[op.query+"|"+p.orc.Coq()] = true
			}
		}
	}
	if err := meta.AddCaseFile(cf, descrs); err != nil {
		return err
	}
	meta.Evaluations = cf.Len()
	meta.Programs = len(probes)
	meta.DistinctNontrivial = len(distinct)
	meta.Rule = "17 pinned deferred operations (several labels per object, one label used by two fragments around other fields, groups inside lists, nested groups, if: false / variable, spreads, a field both deferred and not, a field deferred by two fragments the first of which has no label, @defer at the root) plus random valid operations with @defer on inline fragments and spreads (any if/label) x oracles with 0-2 failures (error, panic, null) anywhere and random resolver delays (completion orders) on probe servers generated from the current templates; all payloads recorded in arrival order. distinct_nontrivial = distinct (operation, oracle) with at least two incremental payloads."
	meta.Samples = []any{descrs[0], descrs[len(descrs)/2]}
	meta.Distribution = map[string]any{"operations": len(ops), "plans": len(plan), "configurations": len(probes), "generated_but_invalid_discarded": invalid, "payload_counts": stats}
	if err := listGroups(c, probes, meta); err != nil {
		return err
	}
	return meta.Write(c.OutDir)
}

// SingleFaultCases runs the pinned deferred operations with one fault (error, panic) at every resolver they invoke and
// adds them as defer_case cases of kind "deferfault" for another property (C04: containment inside deferred groups).
func SingleFaultCases(outDir, prop, monLabel string, probes []xeng.Probe, meta *gen.Meta) error {
	type genOp struct {
		query string
		vars  map[string]any
		op    *ast.OperationDefinition
	}
	var ops []genOp
	for _, q := range corpus {
		doc, errs := gqlparser.LoadQuery(xeng.Schema, q)
		if errs != nil {
			return fmt.Errorf("corpus operation does not validate: %s", q)
		}
		vars, verr := validator.VariableValues(xeng.Schema, doc.Operations[0], nil)
		if verr != nil {
			return fmt.Errorf("corpus operation variables: %s", q)
		}
		ops = append(ops, genOp{q, vars, doc.Operations[0]})
	}
	var round1 []xeng.Case
	for i, op := range ops {
		round1 = append(round1, xeng.Case{ID: i, Query: op.query, Oracle: xeng.NewOracle(), TimeoutMs: 4000})
	}
	res1, err := xeng.RunAll(probes[0].Built.Bin, round1)
	if err != nil {
		return err
	}
	type planned struct {
		op  int
		orc xeng.Oracle
	}
	var plan []planned
	for i := range ops {
		seen := map[string]bool{}
		for _, l := range res1[i].Log {
			if l[0] != "r" || seen[l[1]] {
				continue
			}
			seen[l[1]] = true
			for _, kind := range []string{"error", "panic"} {
				o := xeng.NewOracle()
				o.Fields[l[1]] = xeng.FieldPlan{O: kind, Tag: "single"}
				plan = append(plan, planned{i, o})
			}
		}
	}
	cf := &gen.CaseFile{Dir: outDir, Prop: prop, Kind: "deferfault", Requires: []string{"Base.Prelude", "Model.Exec", "Model.Defer", "Corr.Corr_C01", "Corr.Corr_C13"}, Type: "defer_case",
		Checks: []gen.Check{{Label: "corr", Fn: "defer_corr"}, {Label: monLabel, Fn: "defer_monitor_contain"}, {Label: "monmodel", Fn: "defer_monitor_on_model"}}, Shard: 50}
	cf.Preamble = "Definition sch : schema := " + xeng.SchemaCoq(xeng.Schema) + "."
	var cases []xeng.Case
	for i, p := range plan {
		cases = append(cases, xeng.Case{ID: i, Query: ops[p.op].query, Oracle: p.orc, TimeoutMs: 4000})
	}
	var descrs []any
	selTerms := map[int]string{}
	use := probes
	if len(use) > 2 {
		use = use[:2]
	}
	for _, pr := range use {
		results, err := xeng.RunAll(pr.Built.Bin, cases)
		if err != nil {
			return err
		}
		for i, p := range plan {
			res := results[i]
			op := ops[p.op]
			if res.Crashed || res.Hang || len(res.Responses) == 0 {
				meta.Direct = append(meta.Direct, gen.DirectFinding{Signature: "probe-crash-or-hang", What: "the generated server crashed, hung or gave no response on a deferred operation with one fault",
					Replay: map[string]any{"config": pr.Cfg.Name, "query": op.query, "oracle": p.orc, "crashed": res.Crashed, "hang": res.Hang}})
				continue
			}
			if _, ok := selTerms[p.op]; !ok {
				selTerms[p.op] = xeng.SelsCoq(op.op.SelectionSet, op.vars)
			}
			all := res.All()
			first := all[0]
			var pls, raw []string
			for _, x := range all {
				hn := "None"
				if x.HasNext != nil {
					hn = "(Some " + gen.Bool(*x.HasNext) + ")"
				}
				pls = append(pls, fmt.Sprintf("{| op_path := %s; op_label := %s; op_data := %s; op_errors := %s; op_has_next := %s |}",
					xeng.PathCoq(x.PathString()), gen.Str(x.Label), x.DataTerm(), x.ErrorsTerm(), hn))
			}
			for _, rr := range res.Responses {
				raw = append(raw, string(rr))
			}
			cf.Add(fmt.Sprintf("{| dc_exec := {| xc_schema := sch; xc_root := \"Query\"%%string; xc_sels := %s; xc_oracle := %s; xc_data := %s; xc_errors := %s; xc_log := %s; xc_recovers := %d%%nat; xc_order := [] |}; dc_payloads := %s |}",
				selTerms[p.op], p.orc.Effective(res.Ignored).Coq(), first.DataTerm(), first.ErrorsTerm(), xeng.LogCoq(res.Log), res.Recovers, gen.List(pls)))
			descrs = append(descrs, descr{op.query, p.orc, pr.Cfg.Name, raw, ""})
		}
	}
	if err := meta.AddCaseFile(cf, descrs); err != nil {
		return err
	}
	if meta.Distribution == nil {
		meta.Distribution = map[string]any{}
	}
	meta.Distribution["deferred_operations_with_one_fault"] = cf.Len()
	return nil
}
