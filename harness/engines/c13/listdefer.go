package c13

import (
	"fmt"
	"sort"
	"strings"

	"verifharness/engines/xeng"
	"verifharness/gen"
)

// listGroups: an operation whose FIRST deferred groups are registered by many list-element goroutines at once
// (a list of 24 objects, each with a deferred fragment; a nested list under it), executed again and again: every run
// must deliver the same payloads (as a multiset: the arrival order is free) and must end.
func listGroups(c *gen.Ctx, probes []xeng.Probe, meta *gen.Meta) error {
	ops := []string{
		`query Op { as { id ... @defer { a1 } } }`,
		`query Op { as { id kids { id ... on A @defer(label: "k") { a2 } } } }`,
	}
	reps := 150
	if c.Thorough() {
		reps = 2500
	}
	runs := 0
	for _, p := range probes {
		for _, q := range ops {
			o := xeng.NewOracle()
			o.Lens["as"] = 24
			var cases []xeng.Case
			for k := 0; k < reps; k++ {
				cases = append(cases, xeng.Case{ID: k, Query: q, Oracle: o, TimeoutMs: 3000})
			}
			res, err := xeng.RunAll(p.Built.Bin, cases)
			if err != nil {
				return err
			}
			canon := func(r xeng.Result) string {
				var l []string
				for _, x := range r.Responses {
					l = append(l, string(x))
				}
				// the last payload is the one with hasNext false whichever group it carries: compare the groups as a set
				for i := range l {
					l[i] = strings.Replace(strings.Replace(l[i], `"hasNext":true`, "", 1), `"hasNext":false`, "", 1)
				}
				sort.Strings(l)
				return strings.Join(l, "\n")
			}
			want := canon(res[0])
			for k, r := range res {
				runs++
				if r.Hang || r.Crashed || canon(r) != want {
					meta.Direct = append(meta.Direct, gen.DirectFinding{Signature: "deferred-groups-of-list-elements-lost",
						What: fmt.Sprintf("config %s, %s on a list of 24 objects, run %d of %d: hang=%v crashed=%v, %d payloads (the first run delivered %d)",
							p.Cfg.Name, q, k, reps, r.Hang, r.Crashed, len(r.Responses), len(res[0].Responses)),
						Replay: map[string]any{"config": p.Cfg.Name, "query": q, "list_length": 24, "run": k}})
					break
				}
			}
		}
	}
	meta.Notes = append(meta.Notes, fmt.Sprintf("%d executions of two operations whose first deferred groups are registered by the element goroutines of a list of 24 objects at once: every run must end and deliver the same payloads", runs))
	return nil
}
