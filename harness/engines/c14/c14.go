// Package c14 drives complexity.Calculate, safeAdd and the ComplexityLimit gate of /repo and writes the
// observed results as Coq cases for Corr_C14.
package c14

import (
	"context"
	"encoding/json"
	"fmt"
	"math"
	"net/http"
	"net/http/httptest"
	"regexp"
	"sort"
	"strconv"
	"strings"

	"github.com/vektah/gqlparser/v2"
	"github.com/vektah/gqlparser/v2/ast"
	"github.com/vektah/gqlparser/v2/validator"

	"github.com/99designs/gqlgen/complexity"
	"github.com/99designs/gqlgen/graphql"
	"github.com/99designs/gqlgen/graphql/handler"
	"github.com/99designs/gqlgen/graphql/handler/extension"
	"github.com/99designs/gqlgen/graphql/handler/lru"
	"github.com/99designs/gqlgen/graphql/handler/transport"

	"verifharness/gen"
	"verifharness/qgen"
)

const schemaText = `
interface Node { id: ID! kids(n: Int = 3): [Node!]! peer: Node label: String }
type A implements Node { id: ID! kids(n: Int = 3): [Node!]! peer: Node label: String items(n: Int): [Item!]! }
type B implements Node { id: ID! kids(n: Int = 3): [Node!]! peer: Node label: String other: U }
union U = A | B | Item
type Item { name: String owner: Node u: U count(n: Int = 2): Int }
type Query { node: Node a: A b: B items(n: Int): [Item!]! u: U }
`

type cfun struct {
	Kind string `json:"kind"` // none const add mul arg
	K    int    `json:"k"`
}

func (c cfun) coq() string {
	switch c.Kind {
	case "const":
		return "CConst " + gen.Z(int64(c.K))
	case "add":
		return "CAddChild " + gen.Z(int64(c.K))
	case "mul":
		return "CMulChild " + gen.Z(int64(c.K))
	case "arg":
		return "CArgMul"
	}
	return "CNone"
}

func argInt(args map[string]any) (int, bool) {
	v, ok := args["n"]
	if !ok || v == nil {
		return 0, false
	}
	switch x := v.(type) {
	case int:
		return x, true
	case int64:
		return int(x), true
	case json.Number:
		n, _ := x.Int64()
		return int(n), true
	case float64:
		return int(x), true
	}
	return 0, false
}

func (c cfun) eval(child int, args map[string]any) (int, bool) {
	switch c.Kind {
	case "const":
		return c.K, true
	case "add":
		return child + c.K, true
	case "mul":
		return child * c.K, true
	case "arg":
		a := 1
		if v, ok := argInt(args); ok {
			a = v
		}
		return a * (child + 1), true
	}
	return 0, false
}

type table map[string]cfun // "Obj.field"

func (t table) coq() string {
	keys := make([]string, 0, len(t))
	for k := range t {
		keys = append(keys, k)
	}
	sort.Strings(keys)
	var items []string
	for _, k := range keys {
		p := strings.SplitN(k, ".", 2)
		items = append(items, fmt.Sprintf("(%s, %s, %s)", gen.Str(p[0]), gen.Str(p[1]), t[k].coq()))
	}
	return gen.List(items)
}

var constPool = []int{-5, -1, 0, 1, 2, 3, 10, 1000, math.MaxInt, math.MaxInt - 1, math.MinInt, 1 << 62, 1 << 40}
var addPool = []int{-3, 0, 1, 5, 100, math.MaxInt}
var mulPool = []int{0, 1, 2, 10, 1 << 40, -1}

func randTable(r *gen.Rand, s *ast.Schema) table {
	t := table{}
	names := []string{"A", "B", "Item", "Query", "U", "Node"}
	density := r.Intn(4) // 0: no custom at all .. 3: dense
	for _, n := range names {
		def := s.Types[n]
		fields := []string{"__typename"}
		for _, f := range def.Fields {
			fields = append(fields, f.Name)
		}
		for _, f := range fields {
			if r.Intn(4) >= density {
				continue
			}
			var c cfun
			switch r.Intn(8) {
			case 0, 1, 2:
				c = cfun{"const", gen.Pick(r, constPool)}
			case 3, 4:
				c = cfun{"add", gen.Pick(r, addPool)}
			case 5:
				c = cfun{"mul", gen.Pick(r, mulPool)}
			case 6:
				c = cfun{"arg", 0}
			default:
				c = cfun{"none", 0}
			}
			t[n+"."+f] = c
		}
	}
	return t
}

func implsCoq(s *ast.Schema) string {
	var items []string
	var names []string
	for n, d := range s.Types {
		if d.Kind == ast.Interface {
			names = append(names, n)
		}
	}
	sort.Strings(names)
	for _, n := range names {
		var ps []string
		for _, p := range s.GetPossibleTypes(s.Types[n]) {
			ps = append(ps, gen.Str(p.Name))
		}
		items = append(items, fmt.Sprintf("(%s, %s)", gen.Str(n), gen.List(ps)))
	}
	return gen.List(items)
}

// selsCoq translates a validated selection set into the model's csel list (input translation only:
// no complexity logic here).
func selsCoq(s *ast.Schema, set ast.SelectionSet, vars map[string]any, feat map[string]int) string {
	var items []string
	for _, sel := range set {
		switch x := sel.(type) {
		case *ast.Field:
			ret := s.Types[x.Definition.Type.Name()]
			isSchema := ret.Name == "__Schema"
			composite := ret.Kind == ast.Object || ret.Kind == ast.Interface || ret.Kind == ast.Union
			iface := x.ObjectDefinition.Kind == ast.Interface
			arg := "None"
			if v, ok := argInt(x.ArgumentMap(vars)); ok {
				arg = "(Some " + gen.Z(int64(v)) + ")"
				feat["arg"]++
			}
			if iface {
				feat["iface_field"]++
			}
			if isSchema {
				feat["schema_field"]++
			}
			if x.ObjectDefinition.Kind == ast.Union {
				feat["union_typename"]++
			}
			feat["field"]++
			items = append(items, fmt.Sprintf("CField %s %s %s %s %s %s %s", gen.Bool(iface), gen.Str(x.ObjectDefinition.Name), gen.Str(x.Name),
				gen.Bool(isSchema), gen.Bool(composite), arg, selsCoq(s, x.SelectionSet, vars, feat)))
		case *ast.FragmentSpread:
			feat["spread"]++
			items = append(items, "CFrag "+selsCoq(s, x.Definition.SelectionSet, vars, feat))
		case *ast.InlineFragment:
			feat["inline"]++
			items = append(items, "CFrag "+selsCoq(s, x.SelectionSet, vars, feat))
		}
	}
	return gen.List(items)
}

type calcCase struct {
	Kind     string         `json:"kind"`
	Query    string         `json:"query"`
	Vars     map[string]any `json:"vars"`
	Table    table          `json:"table"`
	Observed int            `json:"observed"`
	Limit    *int           `json:"limit,omitempty"`
	Rejected *bool          `json:"rejected,omitempty"`
	Exec     *int           `json:"exec_calls,omitempty"`
}

type addCase struct {
	Kind string `json:"kind"`
	A    int    `json:"a"`
	B    int    `json:"b"`
	R    int    `json:"observed"`
}

func mkES(s *ast.Schema, t table, execCalls *int) graphql.ExecutableSchema {
	return &graphql.ExecutableSchemaMock{
		SchemaFunc: func() *ast.Schema { return s },
		ComplexityFunc: func(ctx context.Context, typeName, fieldName string, child int, args map[string]any) (int, bool) {
			c, ok := t[typeName+"."+fieldName]
			if !ok {
				return 0, false
			}
			return c.eval(child, args)
		},
		ExecFunc: func(ctx context.Context) graphql.ResponseHandler {
			if execCalls != nil {
				*execCalls++
			}
			return graphql.OneShot(&graphql.Response{Data: []byte(`{}`)})
		},
	}
}

var rejectRe = regexp.MustCompile(`operation has complexity (-?\d+), which exceeds the limit of (-?\d+)`)

type statsReader struct{ last *extension.ComplexityStats }

func (statsReader) ExtensionName() string                     { return "verifStats" }
func (statsReader) Validate(graphql.ExecutableSchema) error   { return nil }
func (s *statsReader) InterceptOperation(ctx context.Context, next graphql.OperationHandler) graphql.ResponseHandler {
	s.last = extension.GetComplexityStats(ctx)
	return next(ctx)
}

func Run(c *gen.Ctx) error {
	r := gen.NewRand(c.Seed)
	schema := gqlparser.MustLoadSchema(&ast.Source{Name: "c14.graphql", Input: schemaText})
	meta := &gen.Meta{Property: "C14", Distribution: map[string]any{}}

	// ---- safeAdd over the boundary grid -------------------------------------------------------
	add := &gen.CaseFile{Dir: c.OutDir, Prop: "C14", Kind: "add", Requires: []string{"Base.Prelude", "Model.Complexity", "Corr.Corr_C14"},
		Type: "add_case", Checks: []gen.Check{{"corr", "add_corr"}, {"mon", "add_monitor"}}, Shard: 1000}
	grid := []int{math.MinInt, math.MinInt + 1, math.MinInt + 2, -(1 << 62), -(1 << 31), -2, -1, 0, 1, 2, 1 << 31, 1<<62 - 1, 1 << 62, 1<<62 + 1,
		math.MaxInt/2 - 1, math.MaxInt / 2, math.MaxInt/2 + 1, math.MaxInt - 2, math.MaxInt - 1, math.MaxInt}
	var addDescr []any
	addOne := func(a, b int) {
		res := complexity.VerifSafeAdd(a, b)
		add.Add(fmt.Sprintf("(%s, %s, %s)", gen.Z(int64(a)), gen.Z(int64(b)), gen.Z(int64(res))))
		addDescr = append(addDescr, addCase{"add", a, b, res})
	}
	for _, a := range grid {
		for _, b := range grid {
			addOne(a, b)
		}
	}
	nrand := 300
	if c.Thorough() {
		nrand = 20000
	}
	ra := r.Fork(1)
	for i := 0; i < nrand; i++ {
		a, b := int(ra.U64()), int(ra.U64())
		if ra.Chance(1, 2) {
			a = a >> uint(ra.Intn(63))
		}
		if ra.Chance(1, 2) {
			b = b >> uint(ra.Intn(63))
		}
		if ra.Chance(1, 4) {
			b = math.MaxInt - a + ra.Intn(5) - 2 // straddle the overflow edge
		}
		addOne(a, b)
	}
	if err := meta.AddCaseFile(add, addDescr); err != nil {
		return err
	}

	// ---- complexity.Calculate on random operations ---------------------------------------------
	calc := &gen.CaseFile{Dir: c.OutDir, Prop: "C14", Kind: "calc", Requires: []string{"Base.Prelude", "Model.Complexity", "Corr.Corr_C14"},
		Type: "calc_case", Checks: []gen.Check{{"corr", "calc_corr"}, {"mon", "calc_monitor"}}, Shard: 400}
	gate := &gen.CaseFile{Dir: c.OutDir, Prop: "C14", Kind: "gate", Requires: []string{"Base.Prelude", "Model.Complexity", "Corr.Corr_C14"},
		Type: "gate_case", Checks: []gen.Check{{"corr", "gate_corr"}, {"mon", "gate_monitor"}}, Shard: 400}
	ncalc, ngate := 400, 150
	if c.Thorough() {
		ncalc, ngate = 6000, 1500
	}
	feat := map[string]int{}
	var calcDescr, gateDescr []any
	distinct := map[string]bool{}
	saturated, negatives, invalid := 0, 0, 0
	impls := implsCoq(schema)
	rq := r.Fork(2)
	// pinned: an argument with a schema default fed by a variable that is given no value (the argument then has its
	// default), by one that is null, by one with a default of its own - each under several cost tables
	pinnedOps := []struct {
		q    string
		vars map[string]any
	}{
		{`query Op($n: Int) { node { kids(n: $n) { id } } }`, map[string]any{}},
		{`query Op($n: Int) { node { kids(n: $n) { id } } }`, map[string]any{"n": nil}},
		{`query Op($n: Int) { node { kids(n: $n) { id } } }`, map[string]any{"n": 7}},
		{`query Op($n: Int = 5) { a { kids(n: $n) { id kids { id } } } }`, map[string]any{}},
		{`query Op($n: Int, $m: Int) { items(n: $m) { count(n: $n) name } }`, map[string]any{}},
		{`query Op($n: Int) { a { items(n: $n) { count } kids { id } } }`, map[string]any{}},
	}
	pinnedLeft := 10 * len(pinnedOps)
	for calc.Len() < ncalc || gate.Len() < ngate {
		g := qgen.New(rq, schema, qgen.Options{MaxDepth: 2 + rq.Intn(4), MaxWidth: 1 + rq.Intn(4), SkipInclude: true, Introspection: true,
			Typename: true, Variables: true, FragmentRate: 30, AliasRate: 20})
		q, rawVars := g.Operation(ast.Query)
		if pinnedLeft > 0 {
			pinnedLeft--
			q, rawVars = pinnedOps[pinnedLeft%len(pinnedOps)].q, pinnedOps[pinnedLeft%len(pinnedOps)].vars
		}
		doc, errs := gqlparser.LoadQuery(schema, q)
		if errs != nil {
			invalid++
			continue
		}
		op := doc.Operations[0]
		vars, verr := validator.VariableValues(schema, op, rawVars)
		if verr != nil {
			invalid++
			continue
		}
		tbl := randTable(rq, schema)
		es := mkES(schema, tbl, nil)
		obs := complexity.Calculate(context.Background(), es, op, vars)
		sels := selsCoq(schema, op.SelectionSet, vars, feat)
		term := fmt.Sprintf("{| cc_custom := %s; cc_impls := %s; cc_sels := %s; cc_observed := %s |}", tbl.coq(), impls, sels, gen.Z(int64(obs)))
		if obs == math.MaxInt {
			saturated++
		}
		for _, cf := range tbl {
			if cf.Kind == "const" && cf.K < 0 {
				negatives++
				break
			}
		}
		if calc.Len() < ncalc {
			calc.Add(term)
			calcDescr = append(calcDescr, calcCase{Kind: "calc", Query: q, Vars: rawVars, Table: tbl, Observed: obs})
			if len(op.SelectionSet) > 0 && len(tbl) > 0 {
				distinct[q+"|"+tbl.coq()] = true
			}
		}
		if gate.Len() < ngate {
			// a real server with the limit set around the computed value
			limits := []int{obs - 1, obs, obs + 1, 0, 1, math.MaxInt, -1}
			limit := limits[rq.Intn(len(limits))]
			if obs == math.MinInt || obs == math.MaxInt {
				limit = obs
				if rq.Bool() {
					limit = obs - 1
				}
			}
			execCalls := 0
			es2 := mkES(schema, tbl, &execCalls)
			srv := handler.New(es2)
			srv.AddTransport(transport.POST{})
			srv.Use(extension.FixedComplexityLimit(limit))
			sr := &statsReader{}
			srv.Use(sr)
			body, _ := json.Marshal(map[string]any{"query": q, "variables": rawVars})
			req := httptest.NewRequest(http.MethodPost, "/query", strings.NewReader(string(body)))
			req.Header.Set("Content-Type", "application/json")
			w := httptest.NewRecorder()
			srv.ServeHTTP(w, req)
			var resp struct {
				Errors []struct {
					Message    string         `json:"message"`
					Extensions map[string]any `json:"extensions"`
				} `json:"errors"`
			}
			_ = json.Unmarshal(w.Body.Bytes(), &resp)
			rejected := false
			reported := 0
			for _, e := range resp.Errors {
				if m := rejectRe.FindStringSubmatch(e.Message); m != nil {
					rejected = true
					reported, _ = strconv.Atoi(m[1])
				}
			}
			if !rejected {
				if len(resp.Errors) > 0 || sr.last == nil {
					return fmt.Errorf("gate case: unexpected response %s for %s", w.Body.String(), q)
				}
				reported = sr.last.Complexity
			}
			gterm := fmt.Sprintf("{| gc_calc := {| cc_custom := %s; cc_impls := %s; cc_sels := %s; cc_observed := %s |}; gc_limit := %s; gc_rejected := %s; gc_exec_calls := %s |}",
				tbl.coq(), impls, sels, gen.Z(int64(reported)), gen.Z(int64(limit)), gen.Bool(rejected), gen.Z(int64(execCalls)))
			gate.Add(gterm)
			l, rj, ex := limit, rejected, execCalls
			gateDescr = append(gateDescr, calcCase{Kind: "gate", Query: q, Vars: rawVars, Table: tbl, Observed: reported, Limit: &l, Rejected: &rj, Exec: &ex})
		}
	}
	// ---- gate histories: ONE server with a query cache (as NewDefaultServer has) answers the same query text
	// with different variable values; the custom cost depends on an argument that comes from the variable
	{
		q := `query Q($n: Int, $m: Int) { items(n: $n) { name } a { items(n: $m) { count } kids(n: 2) { id } } }`
		tbl := table{"Query.items": {Kind: "arg"}, "A.items": {Kind: "arg"}, "A.kids": {Kind: "add", K: 1}}
		doc, errs := gqlparser.LoadQuery(schema, q)
		if errs != nil {
			return fmt.Errorf("history query does not validate: %v", errs)
		}
		op := doc.Operations[0]
		nhist := 12
		if c.Thorough() {
			nhist = 120
		}
		rh := r.Fork(5)
		for h := 0; h < nhist; h++ {
			limit := []int{20, 50, 200, 5}[h%4]
			execCalls := 0
			srv := handler.New(mkES(schema, tbl, &execCalls))
			srv.AddTransport(transport.POST{})
			if h%3 != 2 {
				srv.SetQueryCache(lru.New[*ast.QueryDocument](10))
			}
			srv.Use(extension.FixedComplexityLimit(limit))
			sr := &statsReader{}
			srv.Use(sr)
			for step := 0; step < 4; step++ {
				rawVars := map[string]any{"n": []int{1, 2, 5, 40, 1000}[rh.Intn(5)], "m": []int{0, 1, 3, 30}[rh.Intn(4)]}
				if step == 2 {
					rawVars["n"] = 100000
				}
				vars, verr := validator.VariableValues(schema, op, rawVars)
				if verr != nil {
					return fmt.Errorf("history variables: %v", verr)
				}
				before := execCalls
				sr.last = nil
				body, _ := json.Marshal(map[string]any{"query": q, "variables": rawVars})
				req := httptest.NewRequest(http.MethodPost, "/query", strings.NewReader(string(body)))
				req.Header.Set("Content-Type", "application/json")
				w := httptest.NewRecorder()
				srv.ServeHTTP(w, req)
				var resp struct {
					Errors []struct {
						Message string `json:"message"`
					} `json:"errors"`
				}
				_ = json.Unmarshal(w.Body.Bytes(), &resp)
				rejected, reported := false, 0
				for _, e := range resp.Errors {
					if m := rejectRe.FindStringSubmatch(e.Message); m != nil {
						rejected = true
						reported, _ = strconv.Atoi(m[1])
					}
				}
				if !rejected {
					if len(resp.Errors) > 0 || sr.last == nil {
						return fmt.Errorf("gate history: unexpected response %s", w.Body.String())
					}
					reported = sr.last.Complexity
				}
				sels := selsCoq(schema, op.SelectionSet, vars, feat)
				gate.Add(fmt.Sprintf("{| gc_calc := {| cc_custom := %s; cc_impls := %s; cc_sels := %s; cc_observed := %s |}; gc_limit := %s; gc_rejected := %s; gc_exec_calls := %s |}",
					tbl.coq(), impls, sels, gen.Z(int64(reported)), gen.Z(int64(limit)), gen.Bool(rejected), gen.Z(int64(execCalls-before))))
				l, rj, ex := limit, rejected, execCalls-before
				gateDescr = append(gateDescr, calcCase{Kind: fmt.Sprintf("gate-history %d step %d (query cache: %v)", h, step, h%3 != 2), Query: q, Vars: rawVars, Table: tbl, Observed: reported, Limit: &l, Rejected: &rj, Exec: &ex})
			}
		}
	}
	if err := meta.AddCaseFile(calc, calcDescr); err != nil {
		return err
	}
	if err := meta.AddCaseFile(gate, gateDescr); err != nil {
		return err
	}
	meta.Evaluations = add.Len() + calc.Len() + gate.Len()
	meta.DistinctNontrivial = len(distinct)
	meta.Rule = "safeAdd: 20x20 boundary grid of int plus random pairs straddling the overflow edge; Calculate: random valid operations (fragments, interfaces, unions, variables, introspection fields) from the seeded generator x random custom-complexity tables (constants incl. MaxInt/MinInt/negatives, child+k, child*k with Go wrap, argument-dependent); gate: the same through handler.Server+POST with FixedComplexityLimit around the computed value; gate histories: one server (with and without an LRU query cache) answering the same query text four times with different variable values that drive an argument-dependent custom cost. distinct_nontrivial counts distinct (operation text, custom table) pairs of the Calculate stream with a non-empty selection set and a non-empty table."
	meta.Samples = []any{calcDescr[0], gateDescr[0], addDescr[len(grid)*len(grid)-1]}
	meta.Distribution = map[string]any{"add_cases": add.Len(), "calc_cases": calc.Len(), "gate_cases": gate.Len(), "features": feat,
		"saturated_to_maxint": saturated, "tables_with_negative_const": negatives, "generated_but_invalid_discarded": invalid}
	return meta.Write(c.OutDir)
}
