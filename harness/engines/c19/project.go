// Package c19 regenerates resolver packages with gqlgen's generator (api.Generate from /repo's current tree) over
// user-edited resolver files and evolving schemas, and projects the files before and after onto the model's
// representation (declarations with their source text) for Corr_C19.
package c19

import (
	"bytes"
	"fmt"
	"os"
	"os/exec"
	"path/filepath"
	"sort"
	"strings"
)

func repoDir() string {
	if d := os.Getenv("VERIF_REPO"); d != "" {
		return d
	}
	return "/repo"
}

var goEnv = func() []string {
	env := []string{}
	for _, e := range os.Environ() {
		if strings.HasPrefix(e, "GOFLAGS=") || strings.HasPrefix(e, "GOPROXY=") || e == "GOTOOLCHAIN=local" || e == "GOSUMDB=off" {
			continue
		}
		env = append(env, e)
	}
	return append(env, "GOFLAGS=-mod=mod", "GOPROXY=off")
}()

// gtype is one object type of the project's schema: its fields all get resolvers (forceResolver).
type gtype struct {
	Name   string
	File   string // schema file that defines the type
	Fields []gfield
	Plain  bool // no field is a resolver: the type needs no resolver struct, accessor or methods
}

type gfield struct {
	Name string
	Type string
	Args string // "(n: Int)" or ""
	File string // schema file that declares the field (an `extend type` when different from the type's file)
}

type schema struct {
	Types []gtype // Query first
}

func (s schema) clone() schema {
	var out schema
	for _, t := range s.Types {
		nt := gtype{Name: t.Name, File: t.File, Plain: t.Plain}
		nt.Fields = append(nt.Fields, t.Fields...)
		out.Types = append(out.Types, nt)
	}
	return out
}

// files renders the schema into its .graphqls files.
func (s schema) files() map[string]string {
	out := map[string]*strings.Builder{}
	get := func(f string) *strings.Builder {
		if out[f] == nil {
			out[f] = &strings.Builder{}
			if f == "a.graphqls" {
				out[f].WriteString("directive @goField(forceResolver: Boolean, name: String, omittable: Boolean) on INPUT_FIELD_DEFINITION | FIELD_DEFINITION\n\n")
			}
		}
		return out[f]
	}
	get("a.graphqls")
	for _, t := range s.Types {
		byFile := map[string][]gfield{}
		var order []string
		for _, f := range t.Fields {
			if _, ok := byFile[f.File]; !ok {
				order = append(order, f.File)
			}
			byFile[f.File] = append(byFile[f.File], f)
		}
		// the defining file first (a type needs at least one field there)
		sort.SliceStable(order, func(i, j int) bool { return order[i] == t.File && order[j] != t.File })
		for _, file := range order {
			b := get(file)
			kw := "type"
			if file != t.File {
				kw = "extend type"
			}
			fmt.Fprintf(b, "%s %s {\n", kw, t.Name)
			for _, f := range byFile[file] {
				force := " @goField(forceResolver: true)"
				if t.Name == "Query" || t.Name == "Subscription" || t.Plain {
					force = ""
				}
				fmt.Fprintf(b, "  %s%s: %s%s\n", f.Name, f.Args, f.Type, force)
			}
			b.WriteString("}\n\n")
		}
	}
	res := map[string]string{}
	for f, b := range out {
		res[f] = b.String()
	}
	return res
}

const gqlgenYML = `schema:
  - "*.graphqls"
exec:
  filename: graph/generated.go
  package: graph
model:
  filename: graph/models_gen.go
  package: graph
resolver:
  layout: %s
  dir: graph
  package: graph
  filename_template: "{name}.resolvers.go"
%s`

type project struct {
	Dir    string
	Layout string
}

func newProject(dir, layout string) (*project, error) {
	if err := os.MkdirAll(filepath.Join(dir, "graph"), 0o755); err != nil {
		return nil, err
	}
	gomod := "module c19proj\n\ngo 1.23.8\n\nrequire github.com/99designs/gqlgen v0.0.0\n\nreplace github.com/99designs/gqlgen => " + repoDir() + "\n"
	if err := os.WriteFile(filepath.Join(dir, "go.mod"), []byte(gomod), 0o644); err != nil {
		return nil, err
	}
	sum, _ := os.ReadFile(filepath.Join(repoDir(), "go.sum"))
	_ = os.WriteFile(filepath.Join(dir, "go.sum"), sum, 0o644)
	extra := ""
	if layout == "single-file" {
		extra = "  filename: graph/resolver.go\n"
	}
	yml := fmt.Sprintf(gqlgenYML, layout, "")
	if layout == "single-file" {
		yml = strings.Replace(yml, "  filename_template: \"{name}.resolvers.go\"\n", extra, 1)
	}
	if err := os.WriteFile(filepath.Join(dir, "gqlgen.yml"), []byte(yml), 0o644); err != nil {
		return nil, err
	}
	return &project{Dir: dir, Layout: layout}, nil
}

func (p *project) writeSchema(s schema) error {
	old, _ := filepath.Glob(filepath.Join(p.Dir, "*.graphqls"))
	for _, f := range old {
		_ = os.Remove(f)
	}
	for name, text := range s.files() {
		if err := os.WriteFile(filepath.Join(p.Dir, name), []byte(text), 0o644); err != nil {
			return err
		}
	}
	return nil
}

// generate runs gqlgen's generator in the project; it returns the generator's stderr when it fails.
func (p *project) generate() (string, error) {
	self, _ := os.Executable()
	cmd := exec.Command(self, "gen", p.Dir, "graph/stub.go")
	cmd.Env = goEnv
	var out bytes.Buffer
	cmd.Stderr = &out
	cmd.Stdout = &out
	err := cmd.Run()
	return strings.TrimSpace(out.String()), err
}

func (p *project) build() (string, error) {
	cmd := exec.Command("go", "build", "./...")
	cmd.Dir = p.Dir
	cmd.Env = goEnv
	var out bytes.Buffer
	cmd.Stderr = &out
	cmd.Stdout = &out
	err := cmd.Run()
	return strings.TrimSpace(out.String()), err
}

// resolverFiles lists the user-owned resolver files of the project.
func (p *project) resolverFiles() []string {
	var out []string
	if p.Layout == "single-file" {
		return []string{filepath.Join(p.Dir, "graph", "resolver.go")}
	}
	m, _ := filepath.Glob(filepath.Join(p.Dir, "graph", "*.resolvers.go"))
	sort.Strings(m)
	out = append(out, m...)
	return out
}
