package c19

import (
	"fmt"
	"go/ast"
	"go/parser"
	"go/token"
	"os"
	"path/filepath"
	"strconv"
	"strings"

	"verifharness/gen"
)

// declModel is one top-level declaration of a resolver file, as the rewriter sees it.
type declModel struct {
	Kind string `json:"kind"` // method | func | type | var | const | import
	Recv string `json:"recv,omitempty"`
	Name string `json:"name"`
	Doc  string `json:"doc,omitempty"`     // CommentGroup.Text() of the doc comment
	Raw  string `json:"raw_doc,omitempty"` // the doc comment as written
	Body string `json:"body,omitempty"`    // bytes strictly between the braces, TrimSpace'd
	Sig  string `json:"sig,omitempty"`     // from the method name to the opening brace
	Res  string `json:"results,omitempty"` // the result list as written
	Src  string `json:"src"`               // bytes from Pos() to End()
}

type fileModel struct {
	Name      string      `json:"name"` // base name
	Imports   [][2]string `json:"imports"`
	Decls     []declModel `json:"decls"`
	Remaining *string     `json:"remaining,omitempty"` // the code inside the trailing warning block, comment markers removed
	Refs      []string    `json:"refs,omitempty"`      // package identifiers the code refers to (x in x.Sel)
	Text      string      `json:"-"`
	ParseErr  string      `json:"parse_error,omitempty"`
}

func parseFile(path string) (*fileModel, error) {
	b, err := os.ReadFile(path)
	if err != nil {
		return nil, err
	}
	fm := &fileModel{Name: filepath.Base(path), Text: string(b)}
	fset := token.NewFileSet()
	f, err := parser.ParseFile(fset, path, b, parser.ParseComments)
	if err != nil {
		fm.ParseErr = err.Error()
		return fm, nil
	}
	src := string(b)
	off := func(p token.Pos) int { return fset.Position(p).Offset }
	for _, i := range f.Imports {
		alias := ""
		if i.Name != nil {
			alias = i.Name.Name
		}
		p, _ := strconv.Unquote(i.Path.Value)
		fm.Imports = append(fm.Imports, [2]string{alias, p})
	}
	seen := map[string]bool{}
	ast.Inspect(f, func(n ast.Node) bool {
		if se, ok := n.(*ast.SelectorExpr); ok {
			if id, ok := se.X.(*ast.Ident); ok && id.Obj == nil && !seen[id.Name] {
				seen[id.Name] = true
				fm.Refs = append(fm.Refs, id.Name)
			}
		}
		return true
	})
	lastEnd := 0
	for _, d := range f.Decls {
		dm := declModel{Src: src[off(d.Pos()):off(d.End())]}
		switch x := d.(type) {
		case *ast.FuncDecl:
			dm.Kind = "func"
			dm.Name = x.Name.Name
			if x.Doc != nil {
				dm.Doc = x.Doc.Text()
				dm.Raw = src[off(x.Doc.Pos()):off(x.Doc.End())]
			}
			if x.Recv != nil && len(x.Recv.List) > 0 {
				t := x.Recv.List[0].Type
				if s, ok := t.(*ast.StarExpr); ok {
					t = s.X
				}
				if id, ok := t.(*ast.Ident); ok {
					dm.Kind = "method"
					dm.Recv = id.Name
				}
			}
			if x.Body != nil {
				dm.Body = strings.TrimSpace(src[off(x.Body.Pos())+1 : off(x.Body.End())-1])
				dm.Sig = strings.TrimSpace(src[off(x.Name.Pos()):off(x.Body.Pos())])
				if x.Type.Results != nil {
					dm.Res = strings.Join(strings.Fields(src[off(x.Type.Results.Pos()):off(x.Type.Results.End())]), " ")
				}
			}
		case *ast.GenDecl:
			switch x.Tok {
			case token.IMPORT:
				dm.Kind = "import"
			case token.TYPE:
				dm.Kind = "type"
				if len(x.Specs) > 0 {
					if ts, ok := x.Specs[0].(*ast.TypeSpec); ok {
						dm.Name = ts.Name.Name
					}
				}
			case token.VAR:
				dm.Kind = "var"
			case token.CONST:
				dm.Kind = "const"
			}
			if dm.Name == "" && len(x.Specs) > 0 {
				if vs, ok := x.Specs[0].(*ast.ValueSpec); ok && len(vs.Names) > 0 {
					dm.Name = vs.Names[0].Name
				}
			}
		}
		fm.Decls = append(fm.Decls, dm)
		lastEnd = off(d.End())
	}
	// the warning block: the comments after the last declaration, from the marker on
	tail := src[lastEnd:]
	if i := strings.Index(tail, "// !!! WARNING !!!"); i >= 0 {
		rest := tail[i:]
		lines := strings.Split(rest, "\n")
		// skip the explanatory line comments (they end with the line about helper methods)
		k := 0
		for k < len(lines) && !strings.Contains(lines[k], "Move them out to keep these resolver files clean.") {
			k++
		}
		body := strings.Join(lines[min(k+1, len(lines)):], "\n")
		body = strings.TrimSpace(body)
		var code string
		if strings.HasPrefix(body, "/*") {
			code = strings.TrimSuffix(strings.TrimPrefix(body, "/*"), "*/")
		} else {
			var out []string
			for _, l := range strings.Split(body, "\n") {
				l = strings.TrimLeft(l, " \t")
				l = strings.TrimPrefix(l, "// ")
				l = strings.TrimPrefix(l, "//")
				out = append(out, l)
			}
			code = strings.Join(out, "\n")
		}
		code = strings.TrimSpace(code)
		fm.Remaining = &code
	}
	return fm, nil
}

// ---- Coq printing ------------------------------------------------------------------------------------------

// cstr prints any Go string injectively as a Coq string literal.
func cstr(s string) string {
	var sb strings.Builder
	for i := 0; i < len(s); i++ {
		c := s[i]
		switch {
		case c == '\\':
			sb.WriteString("\\\\")
		case c == '\n':
			sb.WriteString("\\n")
		case c == '\t':
			sb.WriteString("\\t")
		case c < 0x20 || c > 0x7e:
			fmt.Fprintf(&sb, "\\x%02x", c)
		default:
			sb.WriteByte(c)
		}
	}
	return gen.Str(sb.String())
}

func (d declModel) coq() string {
	kind := "KOther"
	switch d.Kind {
	case "method":
		kind = "KMethod " + cstr(d.Recv) + " " + cstr(d.Name)
	case "type":
		kind = "KType " + cstr(d.Name)
	case "import":
		kind = "KImport"
	case "func":
		kind = "KFunc " + cstr(d.Name)
	}
	return fmt.Sprintf("{| d_kind := %s; d_doc := %s; d_rawdoc := %s; d_body := %s; d_results := %s; d_src := %s |}", kind, cstr(strings.TrimSpace(d.Doc)), cstr(rawLines(d.Raw)), cstr(d.Body), cstr(d.Res), cstr(normSpace(d.Src)))
}

// rawLines: the lines of a doc comment as written, without comment markers; an empty comment line between two
// paragraphs stays one empty line (as CommentGroup.Text() keeps it), empty lines at either end are dropped.
func rawLines(raw string) string {
	var out []string
	for _, l := range strings.Split(raw, "\n") {
		l = strings.TrimSpace(l)
		l = strings.TrimPrefix(l, "//")
		l = strings.TrimPrefix(l, "/*")
		l = strings.TrimSuffix(l, "*/")
		l = strings.TrimSpace(l)
		if l == "" && (len(out) == 0 || out[len(out)-1] == "") {
			continue
		}
		out = append(out, l)
	}
	for len(out) > 0 && out[len(out)-1] == "" {
		out = out[:len(out)-1]
	}
	return strings.Join(out, "\n")
}

// normSpace makes declaration text independent of gofmt's re-indentation inside comments: every run of
// spaces/tabs at the start of a line is dropped (the rescued code sits in a comment, which gofmt indents).
func normSpace(s string) string {
	lines := strings.Split(s, "\n")
	for i, l := range lines {
		lines[i] = strings.TrimLeft(l, " \t")
	}
	return strings.Join(lines, "\n")
}

func (f *fileModel) coq() string {
	var ds, is []string
	for _, d := range f.Decls {
		ds = append(ds, d.coq())
	}
	for _, i := range f.Imports {
		is = append(is, fmt.Sprintf("(%s, %s)", cstr(i[0]), cstr(i[1])))
	}
	rem := "None"
	if f.Remaining != nil {
		rem = "(Some " + cstr(normSpace(*f.Remaining)) + ")"
	}
	return fmt.Sprintf("{| f_name := %s; f_imports := %s; f_decls := %s; f_remaining := %s |}", cstr(f.Name), gen.List(is), gen.List(ds), rem)
}
