package c19

import (
	"fmt"
	"go/ast"
	"go/format"
	"go/parser"
	"go/token"
	"os"
	"sort"
	"strings"

	"verifharness/gen"
)

// statement pool for resolver bodies: nested braces, strings and raw strings with braces and comment markers,
// comments, closures, labels; every body ends in a panic so that it compiles whatever the result types are.
var stmtPool = []string{
	"// a comment with a closing brace } and an opening one {",
	"str0 := \"}{ \\\" // not a comment\"\n_ = str0",
	"raw := `raw } string {\nwith a newline and a \" quote`\n_ = raw",
	"f := func(x int) int {\n\tif x > 0 {\n\t\treturn x\n\t}\n\treturn -x\n}\n_ = f(3)",
	"for i := 0; i < 2; i++ {\n\tif i == 1 {\n\t\tbreak\n\t}\n}",
	"m := map[string][]int{\"a\": {1, 2}, \"}\": {}}\n_ = m",
	"/* block comment inside a body */",
	"type local struct{ n int }\n_ = local{n: 1}",
	"switch x := 3; {\ncase x > 2:\n\t_ = '}'\ndefault:\n}",
	"_ = strings.ToUpper(\"x\")",
	"defer func() {\n\t_ = recover()\n}()",
	// locals spelled like packages the resolver template reserves
	"bytes := struct{ n int }{1}\n_ = bytes.n",
	"time := struct{ sec int }{2}\n_ = time.sec",
	"errors := []struct{ msg string }{{\"m\"}}\n_ = errors[0].msg",
	"sync, io := struct{ on bool }{true}, struct{ eof bool }{}\n_, _ = sync.on, io.eof",
	"var strconv, ast, graphql, introspection struct{ x int }\n_, _, _, _ = strconv.x, ast.x, graphql.x, introspection.x",
}

func genBody(r *gen.Rand, tag string) string {
	n := r.Intn(4)
	var parts []string
	used := map[int]bool{}
	for i := 0; i < n; i++ {
		k := r.Intn(len(stmtPool))
		if used[k] {
			continue
		}
		used[k] = true
		parts = append(parts, stmtPool[k])
	}
	last := fmt.Sprintf("panic(fmt.Errorf(\"body of %s\"))", tag)
	// how the body ends: with the statement, with a comment on its line, with a comment line after it
	switch r.Intn(5) {
	case 0:
		last += " // the last thing in this body is a line comment"
	case 1:
		last += "\n// a comment line closes the body }"
	case 2:
		last += " /* a block comment closes the body */"
	}
	parts = append(parts, last)
	return strings.Join(parts, "\n")
}

var docPool = []string{
	"",
	"// %s does something the user wrote down.",
	"// %s has a doc comment\n// of two lines.",
	"// %s keeps a directive-like line.\n//nolint:unused // kept on purpose",
	"// %s mentions braces { } and a comment end */ in its doc.",
	"// %s is described in two paragraphs.\n//\n// The second paragraph follows a blank comment line,\n// as godoc likes it.",
}

// helper declarations the user keeps in resolver files
var helperPool = []string{
	"func helper%d(x int) int {\n\tif x > 0 {\n\t\treturn x * 2\n\t}\n\treturn 0\n}",
	"type helperType%d struct {\n\tName string\n\tTags []string\n}",
	"var helperVar%d = map[string]int{\"}\": 1}",
	"const helperConst%d = \"a } b\"",
	"func helper%d() string {\n\t/* a block comment in a helper */\n\treturn strings.Repeat(\"x\", 2)\n}",
	"func helper%d() string {\n\treturn \"ends a comment */ inside a string\"\n}",
	"// helper%d has its own doc comment.\nfunc helper%d() {}",
	"func (h helperRecv) method%d() int { return len(h) }",
}

type userEdit struct {
	Bodies  map[string]string   `json:"bodies"` // recv.method -> body
	Docs    map[string]string   `json:"docs"`
	Helpers map[string][]string `json:"helpers"` // file -> declarations
	Imports map[string][]string `json:"imports"`
}

// applyUserCode rewrites the generated resolver files the way a user would: bodies, doc comments, helpers, imports.
func applyUserCode(r *gen.Rand, files []string, wild bool) (*userEdit, error) {
	ue := &userEdit{Bodies: map[string]string{}, Docs: map[string]string{}, Helpers: map[string][]string{}, Imports: map[string][]string{}}
	helperN := 0
	recvDeclared := false
	rootHelper := map[string]bool{}
	var caseTwins []string // helper methods on resolver structs whose names differ from a resolver's only in case
	for _, path := range files {
		b, err := os.ReadFile(path)
		if err != nil {
			return nil, err
		}
		src := string(b)
		fset := token.NewFileSet()
		f, err := parser.ParseFile(fset, path, b, parser.ParseComments)
		if err != nil {
			return nil, fmt.Errorf("generated resolver file does not parse: %w", err)
		}
		type repl struct {
			start, end int
			text       string
		}
		var repls []repl
		for _, d := range f.Decls {
			fd, ok := d.(*ast.FuncDecl)
			if !ok || fd.Recv == nil || fd.Body == nil {
				continue
			}
			t := fd.Recv.List[0].Type
			if s, ok := t.(*ast.StarExpr); ok {
				t = s.X
			}
			id, ok := t.(*ast.Ident)
			if !ok || id.Name == "Resolver" {
				continue
			}
			key := id.Name + "." + fd.Name.Name
			if r.Chance(1, 5) {
				lc := strings.ToLower(fd.Name.Name[:1]) + fd.Name.Name[1:]
				caseTwins = append(caseTwins, fmt.Sprintf("// %s is what %s delegates to in some projects.\nfunc (r *%s) %s() string {\n\treturn \"the unexported helper %s.%s, not the resolver\"\n}", lc, fd.Name.Name, id.Name, lc, id.Name, lc))
			}
			if r.Chance(1, 6) {
				continue // left as generated
			}
			body := genBody(r, key)
			ue.Bodies[key] = body
			repls = append(repls, repl{fset.Position(fd.Body.Pos()).Offset + 1, fset.Position(fd.Body.End()).Offset - 1, "\n" + body + "\n"})
			docs := docPool
			if !wild {
				docs = docPool[:3]
			}
			// named results, as a user may write them (also on a subscription's channel result)
			if res := fd.Type.Results; res != nil && len(res.List) == 2 && len(res.List[0].Names) == 0 && r.Chance(1, 3) {
				t0 := src[fset.Position(res.List[0].Type.Pos()).Offset:fset.Position(res.List[0].Type.End()).Offset]
				repls = append(repls, repl{fset.Position(res.Pos()).Offset, fset.Position(res.End()).Offset, "(res " + t0 + ", err error)"})
			}
			doc := gen.Pick(r, docs)
			if doc != "" {
				doc = fmt.Sprintf(doc, fd.Name.Name)
				ue.Docs[key] = doc
				start := fset.Position(fd.Pos()).Offset
				if fd.Doc != nil {
					start = fset.Position(fd.Doc.Pos()).Offset
				}
				repls = append(repls, repl{start, fset.Position(fd.Pos()).Offset, doc + "\n"})
			}
		}
		sort.Slice(repls, func(i, j int) bool { return repls[i].start > repls[j].start })
		for _, rp := range repls {
			src = src[:rp.start] + rp.text + src[rp.end:]
		}
		// helpers
		var helpers []string
		for i := 0; i < r.Intn(4); i++ {
			k := r.Intn(len(helperPool))
			if !wild && (k == 5) {
				k = 0
			}
			h := helperPool[k]
			helperN++
			if k == 7 {
				if !recvDeclared {
					helpers = append(helpers, "type helperRecv []int")
					recvDeclared = true
				}
				h = fmt.Sprintf(h, helperN)
			} else if strings.Count(h, "%d") == 2 {
				h = fmt.Sprintf(h, helperN, helperN)
			} else {
				h = fmt.Sprintf(h, helperN)
			}
			helpers = append(helpers, h)
		}
		// helper methods on the root resolver, one named after a model type
		for _, hm := range []string{"Settings", "Helper"} {
			if !rootHelper[hm] && r.Chance(1, 4) {
				rootHelper[hm] = true
				helpers = append(helpers, fmt.Sprintf("func (r *Resolver) %s() string {\n\treturn \"a helper on the root resolver called %s\"\n}", hm, hm))
			}
		}
		if len(helpers) > 0 {
			src += "\n" + strings.Join(helpers, "\n\n") + "\n"
			ue.Helpers[path] = helpers
		}
		// imports: strings is used by bodies/helpers; add aliased and blank imports
		var imps []string
		if strings.Contains(src, "strings.") {
			imps = append(imps, "\"strings\"")
		}
		if strings.Contains(src, "fmt.") && !strings.Contains(src, "\"fmt\"") {
			imps = append(imps, "\"fmt\"")
		}
		if r.Chance(1, 3) {
			imps = append(imps, "str \"strings\"")
			src += "\nvar _ = str.ToLower\n"
		}
		if r.Chance(1, 4) {
			imps = append(imps, "_ \"embed\"")
		}
		if len(imps) > 0 {
			if strings.Contains(src, "import (") {
				src = strings.Replace(src, "import (", "import (\n\t"+strings.Join(imps, "\n\t"), 1)
			} else {
				src = strings.Replace(src, "\nimport ", "\nimport (\n\t"+strings.Join(imps, "\n\t")+"\n)\n\nimport ", 1)
			}
			ue.Imports[path] = imps
		}
		out, err := format.Source([]byte(src))
		if err != nil {
			return nil, fmt.Errorf("user code does not format (%s): %w", path, err)
		}
		if err := os.WriteFile(path, out, 0o644); err != nil {
			return nil, err
		}
	}
	// a hand-written file that sorts before every resolver file
	if len(caseTwins) > 0 && len(files) > 0 {
		dir := files[0][:strings.LastIndex(files[0], "/")]
		src := "package graph\n\n" + strings.Join(caseTwins, "\n\n") + "\n"
		if err := os.WriteFile(dir+"/0helpers.go", []byte(src), 0o644); err != nil {
			return nil, err
		}
		ue.Helpers[dir+"/0helpers.go"] = caseTwins
	}
	return ue, nil
}
