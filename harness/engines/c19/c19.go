package c19

import (
	"fmt"
	"os"
	"path/filepath"
	"sort"
	"strings"
	"sync"

	"verifharness/gen"
)

// ---- schemas and their evolutions -----------------------------------------------------------------------------

var fieldTypes = []string{"String", "Int", "String!", "[Int!]", "Boolean"}

func genSchema(r *gen.Rand) schema {
	var s schema
	q := gtype{Name: "Query", File: "a.graphqls"}
	q.Fields = append(q.Fields, gfield{Name: "root", Type: "String", File: "a.graphqls"})
	files := []string{"a.graphqls", "b.graphqls"}
	names := []string{"Alpha", "Beta", "Gamma"}
	nt := 1 + r.Intn(3)
	for i := 0; i < nt; i++ {
		t := gtype{Name: names[i], File: gen.Pick(r, files)}
		for j := 0; j < 1+r.Intn(3); j++ {
			args := ""
			if r.Chance(1, 3) {
				args = "(n: Int)"
			}
			t.Fields = append(t.Fields, gfield{Name: fmt.Sprintf("%sf%d", strings.ToLower(names[i][:1]), j), Type: gen.Pick(r, fieldTypes), Args: args, File: t.File})
		}
		if r.Chance(1, 4) {
			// two fields whose names differ only in the case of a later letter (nickName / nickname)
			t.Fields = append(t.Fields, gfield{Name: strings.ToLower(names[i][:1]) + "F0", Type: gen.Pick(r, fieldTypes), File: t.File})
		}
		s.Types = append(s.Types, t)
		q.Fields = append(q.Fields, gfield{Name: strings.ToLower(names[i]), Type: names[i], File: gen.Pick(r, files)})
	}
	// a plain model type (no resolvers), as in most schemas
	if r.Chance(2, 3) {
		f := gen.Pick(r, files)
		s.Types = append(s.Types, gtype{Name: "Settings", File: f, Plain: true, Fields: []gfield{{Name: "theme", Type: "String", File: f}}})
		q.Fields = append(q.Fields, gfield{Name: "settings", Type: "Settings", File: f})
	}
	s.Types = append([]gtype{q}, s.Types...)
	if r.Chance(1, 2) {
		s.Types = append(s.Types, gtype{Name: "Subscription", File: "a.graphqls", Fields: []gfield{{Name: "ticks", Type: "Int", File: "a.graphqls"}}})
	}
	return s
}

func hasCaseTwins(t *gtype) bool {
	for i := range t.Fields {
		for j := i + 1; j < len(t.Fields); j++ {
			if strings.EqualFold(t.Fields[i].Name, t.Fields[j].Name) {
				return true
			}
		}
	}
	return false
}

type evolution struct {
	Kind string `json:"kind"`
	What string `json:"what"`
}

// evolve applies 1..3 schema edits; addsOnly restricts them to added fields / types.
func evolve(r *gen.Rand, s schema, addsOnly bool) (schema, []evolution) {
	n := 1 + r.Intn(3)
	var evs []evolution
	s = s.clone()
	counter := 0
	for i := 0; i < n; i++ {
		k := r.Intn(7)
		if addsOnly {
			k = r.Intn(2)
		}
		ti := r.Intn(len(s.Types))
		t := &s.Types[ti]
		switch k {
		case 0: // add a field
			counter++
			f := gfield{Name: fmt.Sprintf("%snew%d", strings.ToLower(t.Name[:1]), counter), Type: gen.Pick(r, fieldTypes), File: gen.Pick(r, []string{t.File, "b.graphqls", "a.graphqls"})}
			t.Fields = append(t.Fields, f)
			evs = append(evs, evolution{"add-field", t.Name + "." + f.Name + " in " + f.File})
		case 1: // add a type
			if len(s.Types) >= 5 {
				continue
			}
			name := []string{"Delta", "Eps"}[len(s.Types)%2]
			dup := false
			for _, x := range s.Types {
				if x.Name == name {
					dup = true
				}
			}
			if dup {
				continue
			}
			file := gen.Pick(r, []string{"a.graphqls", "b.graphqls", "c.graphqls"})
			nt := gtype{Name: name, File: file, Fields: []gfield{{Name: strings.ToLower(name[:1]) + "x", Type: "String", File: file}}}
			s.Types = append(s.Types, nt)
			s.Types[0].Fields = append(s.Types[0].Fields, gfield{Name: strings.ToLower(name), Type: name, File: "a.graphqls"})
			evs = append(evs, evolution{"add-type", name + " in " + file})
		case 2: // remove a field (keep at least one field in the type's own file)
			if len(t.Fields) < 2 {
				continue
			}
			j := 1 + r.Intn(len(t.Fields)-1)
			evs = append(evs, evolution{"remove-field", t.Name + "." + t.Fields[j].Name})
			t.Fields = append(t.Fields[:j], t.Fields[j+1:]...)
		case 3: // rename a field
			if len(t.Fields) < 2 {
				continue
			}
			j := 1 + r.Intn(len(t.Fields)-1)
			counter++
			old := t.Fields[j].Name
			t.Fields[j].Name = fmt.Sprintf("%sren%d", strings.ToLower(t.Name[:1]), counter)
			evs = append(evs, evolution{"rename-field", t.Name + "." + old + " -> " + t.Fields[j].Name})
		case 4: // move a field to another schema file (extend type)
			if len(t.Fields) < 2 {
				continue
			}
			j := 1 + r.Intn(len(t.Fields)-1)
			nf := "b.graphqls"
			if t.Fields[j].File == "b.graphqls" {
				nf = "a.graphqls"
			}
			evs = append(evs, evolution{"move-field", t.Name + "." + t.Fields[j].Name + " " + t.Fields[j].File + " -> " + nf})
			t.Fields[j].File = nf
		case 6: // the fields of a type stop being resolvers; the type stays
			if ti == 0 || t.Plain || hasCaseTwins(t) || t.Name == "Subscription" {
				continue // (gqlgen binds struct fields case-insensitively: twins stay resolvers whatever the schema says)
			}
			t.Plain = true
			evs = append(evs, evolution{"fields-stop-being-resolvers", t.Name})
		case 5: // remove a type (never a root type)
			if ti == 0 || len(s.Types) < 3 || t.Name == "Subscription" {
				continue
			}
			name := t.Name
			s.Types = append(s.Types[:ti], s.Types[ti+1:]...)
			q := &s.Types[0]
			var keep []gfield
			for _, f := range q.Fields {
				if f.Type != name {
					keep = append(keep, f)
				}
			}
			q.Fields = keep
			evs = append(evs, evolution{"remove-type", name})
		}
	}
	return s, evs
}

// live lists, per resolver file, the resolver methods and generated structs the new schema calls for.
type liveFile struct {
	File    string
	Methods [][2]string // receiver struct, Go method name
	Structs []string    // generated struct types declared in this file
	Access  []string    // accessor methods on Resolver declared in this file
}

func goName(f string) string { return strings.ToUpper(f[:1]) + f[1:] }

func liveOf(s schema, layout string) []liveFile {
	m := map[string]*liveFile{}
	get := func(schemaFile string) *liveFile {
		fn := strings.TrimSuffix(schemaFile, ".graphqls") + ".resolvers.go"
		if layout == "single-file" {
			fn = "resolver.go"
		}
		if m[fn] == nil {
			m[fn] = &liveFile{File: fn}
		}
		return m[fn]
	}
	for _, t := range s.Types {
		if len(t.Fields) == 0 || t.Plain {
			continue
		}
		lf := get(t.File)
		recv := strings.ToLower(t.Name[:1]) + t.Name[1:] + "Resolver"
		lf.Structs = append(lf.Structs, recv)
		lf.Access = append(lf.Access, t.Name)
		for _, f := range t.Fields {
			get(f.File).Methods = append(get(f.File).Methods, [2]string{recv, goName(f.Name)})
		}
	}
	var out []liveFile
	for _, lf := range m {
		out = append(out, *lf)
	}
	sort.Slice(out, func(i, j int) bool { return out[i].File < out[j].File })
	return out
}

func (l liveFile) coq() string {
	var ms, ss, as []string
	for _, m := range l.Methods {
		ms = append(ms, fmt.Sprintf("(%s, %s)", cstr(m[0]), cstr(m[1])))
	}
	for _, s := range l.Structs {
		ss = append(ss, cstr(s))
	}
	for _, a := range l.Access {
		as = append(as, cstr(a))
	}
	return fmt.Sprintf("{| l_file := %s; l_methods := %s; l_structs := %s; l_access := %s; l_root := %s |}", cstr(l.File), gen.List(ms), gen.List(ss), gen.List(as), gen.Bool(l.File == "resolver.go"))
}

// ---- one scenario ----------------------------------------------------------------------------------------------

type scenarioDescr struct {
	Layout     string       `json:"layout"`
	Seed       uint64       `json:"seed"`
	Wild       bool         `json:"wild"`
	AddsOnly   bool         `json:"adds_only"`
	Evolutions []evolution  `json:"evolutions"`
	Before     []*fileModel `json:"before"`
	After      []*fileModel `json:"after"`
	GenError   string       `json:"generator_error,omitempty"`
	Sig        string       `json:"sig,omitempty"`
}

type scenarioResult struct {
	descr  scenarioDescr
	coq    string
	descr2 *scenarioDescr // the second regeneration: over the output of the first, same schema
	coq2   string
	direct []gen.DirectFinding
}

func parseAll(files []string) ([]*fileModel, error) {
	var out []*fileModel
	for _, f := range files {
		fm, err := parseFile(f)
		if err != nil {
			return nil, err
		}
		out = append(out, fm)
	}
	return out, nil
}

// FreshRegeneration generates a fresh project and regenerates it with nothing edited in between (C18's clause);
// it returns the Coq case (before = the fresh resolver files, after = the files after the second run), its
// description and any direct finding.
func FreshRegeneration(root string, idx int, seed uint64, layout string) (string, any, []gen.DirectFinding, error) {
	res, err := runScenarioOpt(root, idx, seed, layout, false, true, true)
	if err != nil {
		return "", nil, nil, err
	}
	return res.coq, res.descr, res.direct, nil
}

func runScenario(root string, idx int, seed uint64, layout string, wild, addsOnly bool) (*scenarioResult, error) {
	return runScenarioOpt(root, idx, seed, layout, wild, addsOnly, false)
}

func runScenarioOpt(root string, idx int, seed uint64, layout string, wild, addsOnly, fresh bool) (*scenarioResult, error) {
	r := gen.NewRand(seed)
	dir := filepath.Join(root, fmt.Sprintf("p%d", idx))
	defer os.RemoveAll(dir)
	p, err := newProject(dir, layout)
	if err != nil {
		return nil, err
	}
	res := &scenarioResult{descr: scenarioDescr{Layout: layout, Seed: seed, Wild: wild, AddsOnly: addsOnly}}
	fail := func(sig, what string) (*scenarioResult, error) {
		res.direct = append(res.direct, gen.DirectFinding{Signature: sig, What: what, Replay: res.descr})
		return res, nil
	}
	s0 := genSchema(r)
	if err := p.writeSchema(s0); err != nil {
		return nil, err
	}
	if out, err := p.generate(); err != nil {
		return fail("initial-generation-fails", "generating a fresh project failed: "+out)
	}
	if !fresh {
		if _, err := applyUserCode(r, p.resolverFiles(), wild); err != nil {
			return nil, err
		}
	}
	before, err := parseAll(p.resolverFiles())
	if err != nil {
		return nil, err
	}
	res.descr.Before = before
	if addsOnly {
		if out, err := p.build(); err != nil {
			return nil, fmt.Errorf("the user-edited project does not compile (harness): %s", out)
		}
	}
	s1, evs := evolve(r, s0, addsOnly)
	if fresh {
		s1, evs = s0, []evolution{{"regenerate-fresh-tree", "nothing edited after the first generation"}}
	}
	res.descr.Evolutions = evs
	if err := p.writeSchema(s1); err != nil {
		return nil, err
	}
	genOut, genErr := p.generate()
	after, err := parseAll(p.resolverFiles())
	if err != nil {
		return nil, err
	}
	res.descr.After = after
	for _, f := range after {
		if f.ParseErr != "" {
			res.descr.GenError = genOut
			return fail("regenerated-file-not-valid-go", "after regeneration "+f.Name+" is not valid Go: "+f.ParseErr)
		}
	}
	// the generator's last step type-checks the whole package; code the user still has to adapt after fields or
	// types went away fails it, which the property allows (it promises compilation after adds-only changes only)
	if genErr != nil && !(strings.Contains(genOut, "validation failed") && !addsOnly) {
		res.descr.GenError = genOut
		return fail("regeneration-fails", "regeneration over user-edited resolver files failed: "+genOut)
	}
	if addsOnly {
		if out, err := p.build(); err != nil {
			return fail("adds-only-regeneration-breaks-build", "the package compiled before an adds-only schema change and does not after: "+out)
		}
	}
	if fresh {
		for i := range after {
			if i < len(before) && after[i].Text != before[i].Text {
				return fail("generation-not-idempotent", "regenerating the freshly generated "+layout+" project changed "+after[i].Name)
			}
		}
	}
	// repeated regeneration changes nothing more
	var second []*fileModel
	for k := 0; k < 2; k++ {
		if out, err := p.generate(); err != nil && !(strings.Contains(out, "validation failed") && !addsOnly) {
			return fail("regeneration-fails", "a repeated regeneration failed: "+out)
		}
		again, err := parseAll(p.resolverFiles())
		if err != nil {
			return nil, err
		}
		// the resolvers stay exactly as they are; the warning block is shown only by the run that moved the code
		if len(again) != len(after) {
			return fail("regeneration-not-idempotent", "a repeated regeneration changed the set of resolver files")
		}
		for i := range again {
			if again[i].ParseErr != "" {
				return fail("regenerated-file-not-valid-go", "after a repeated regeneration "+again[i].Name+" is not valid Go: "+again[i].ParseErr)
			}
			a, b := methodsOf(after[i]), methodsOf(again[i])
			if a != b {
				return fail("regeneration-not-idempotent", "regenerating again changed the resolver methods of "+again[i].Name+":\n--- first\n"+a+"\n--- again\n"+b)
			}
		}
		if k == 0 {
			second = again
		} else {
			// from the second run on nothing at all changes (the model's regen_fixpoint)
			for i := range again {
				if again[i].Text != second[i].Text {
					return fail("regeneration-not-idempotent", "the third regeneration changed "+again[i].Name+" although nothing was edited after the second")
				}
			}
		}
	}
	var bs, as, ls []string
	for _, f := range before {
		bs = append(bs, f.coq())
	}
	for _, f := range after {
		as = append(as, f.coq())
	}
	for _, l := range liveOf(s1, layout) {
		ls = append(ls, l.coq())
	}
	var rs []string
	for _, f := range after {
		var ids []string
		for _, id := range f.Refs {
			ids = append(ids, cstr(id))
		}
		rs = append(rs, fmt.Sprintf("(%s, %s)", cstr(f.Name), gen.List(ids)))
	}
	res.coq = fmt.Sprintf("{| c_before := %s; c_live := %s; c_after := %s; c_refs := %s |}", gen.List(bs), gen.List(ls), gen.List(as), gen.List(rs))
	// the second run as a case of its own: before = the output of the first run
	var ss, rs2 []string
	for _, f := range second {
		ss = append(ss, f.coq())
		var ids []string
		for _, id := range f.Refs {
			ids = append(ids, cstr(id))
		}
		rs2 = append(rs2, fmt.Sprintf("(%s, %s)", cstr(f.Name), gen.List(ids)))
	}
	d2 := res.descr
	d2.Evolutions = []evolution{{"regenerate-again", "no change of schema or files after the first regeneration"}}
	d2.Before, d2.After = after, second
	res.descr2 = &d2
	res.coq2 = fmt.Sprintf("{| c_before := %s; c_live := %s; c_after := %s; c_refs := %s |}", gen.List(as), gen.List(ls), gen.List(ss), gen.List(rs2))
	return res, nil
}

// methodsOf renders the resolver methods of a file (receiver, name, doc, signature, body) for comparison.
func methodsOf(f *fileModel) string {
	var sb strings.Builder
	for _, d := range f.Decls {
		if d.Kind == "method" {
			fmt.Fprintf(&sb, "%s.%s|%s|%s|%s\n", d.Recv, d.Name, d.Raw, d.Sig, d.Body)
		}
	}
	return sb.String()
}

func Run(c *gen.Ctx) error {
	r := gen.NewRand(c.Seed)
	meta := &gen.Meta{Property: "C19", Distribution: map[string]any{}}
	n := 24
	if c.Thorough() {
		n = 300
	}
	root := filepath.Join(os.Getenv("VERIF_WORK"), "c19")
	if os.Getenv("VERIF_WORK") == "" {
		root = filepath.Join(c.OutDir, "c19work")
	}
	_ = os.MkdirAll(root, 0o755)
	defer os.RemoveAll(root)
	results := make([]*scenarioResult, n)
	errs := make([]error, n)
	var wg sync.WaitGroup
	sem := make(chan struct{}, 8)
	for i := 0; i < n; i++ {
		seed := r.U64()
		layout := "follow-schema"
		if i%5 == 4 {
			layout = "single-file"
		}
		wild := i%3 != 0
		addsOnly := i%4 == 1
		wg.Add(1)
		go func(i int) {
			defer wg.Done()
			sem <- struct{}{}
			defer func() { <-sem }()
			results[i], errs[i] = runScenario(root, i, seed, layout, wild, addsOnly)
		}(i)
	}
	wg.Wait()
	cf := &gen.CaseFile{Dir: c.OutDir, Prop: "C19", Kind: "regen", Requires: []string{"Base.Prelude", "Model.Rewrite", "Model.Regen", "Corr.Corr_C19"}, Type: "c19_case",
		Checks: []gen.Check{{Label: "corr", Fn: "c19_corr"}, {Label: "mon", Fn: "c19_mon"}, {Label: "montol", Fn: "c19_montol"}, {Label: "monmodel", Fn: "c19_monmodel"}}, Shard: 40}
	var descr []any
	kinds := map[string]int{}
	for i, res := range results {
		if errs[i] != nil {
			return errs[i]
		}
		meta.Direct = append(meta.Direct, res.direct...)
		if res.coq == "" {
			continue
		}
		cf.Add(res.coq)
		descr = append(descr, res.descr)
		for _, e := range res.descr.Evolutions {
			kinds[e.Kind]++
		}
		if res.coq2 != "" {
			cf.Add(res.coq2)
			descr = append(descr, *res.descr2)
			kinds["regenerate-again"]++
		}
		kinds["layout:"+res.descr.Layout]++
	}
	if err := meta.AddCaseFile(cf, descr); err != nil {
		return err
	}
	meta.Distribution["scenarios"] = kinds
	meta.Evaluations = cf.Len()
	meta.DistinctNontrivial = cf.Len()
	meta.Programs = n
	meta.Rule = "scratch projects generated by gqlgen's generator from /repo's tree; resolver files then edited as a user would (bodies with nested braces, strings and raw strings containing braces and comment markers, closures, comments; doc comments incl. directive-like lines; helper funcs/types/vars/consts/methods, some containing a block-comment end; plain, aliased and blank imports), then 1..3 schema edits (add / remove / rename / move a field between schema files, add / remove a type), regeneration, two more regenerations (the second is a case of its own against the model's run over the first run's output; the third must be byte-identical to the second), both resolver layouts; adds-only scenarios are built with go build before and after."
	if len(descr) > 1 {
		meta.Samples = append(meta.Samples, descr[0])
	}
	return meta.Write(c.OutDir)
}
