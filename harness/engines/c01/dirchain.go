package c01

import (
	"encoding/json"
	"fmt"
	"strings"

	"verifharness/engines/xeng"
	"verifharness/gen"
)

// DirChainSchema: fields whose definition carries runtime directives and whose return type carries runtime directives
// too - the chain around the resolver has links of both kinds.
const DirChainSchema = `directive @fa(tag: String) on FIELD_DEFINITION
directive @fb(tag: String) on FIELD_DEFINITION
directive @ta(tag: String) on OBJECT
directive @tb(tag: String) on OBJECT

type Query {
  both: Item @fa
  plain: Item
  label: String @fa
  twice: String @fa @fb
  box: Box @fb
  boxes: Box @fb @fa
}

type Item @ta {
  id: String!
}

type Box @ta @tb {
  id: String!
}
`

type chainField struct {
	name         string
	tdirs, fdirs []string
	object       bool
}

var chainFields = []chainField{
	{"both", []string{"Ta"}, []string{"Fa"}, true},
	{"plain", []string{"Ta"}, nil, true},
	{"label", nil, []string{"Fa"}, false},
	{"twice", nil, []string{"Fa", "Fb"}, false},
	{"box", []string{"Ta", "Tb"}, []string{"Fb"}, true},
	{"boxes", []string{"Ta", "Tb"}, []string{"Fb", "Fa"}, true},
}

// directiveChains (C01, C04): every assignment of {calls next, answers null, fails, panics} to the links of the
// directive chain of each field of DirChainSchema (and every resolver behaviour under an all-next chain), on servers
// generated from the current templates: who is invoked at the field, in which order, what the field is completed
// from, how often the recover hook runs - compared with Model.DirChain and judged by its monitor.
func directiveChains(c *gen.Ctx, prop string, cfgs []xeng.Config, meta *gen.Meta) (int, error) {
	probes, err := xeng.BuildProbes(DirChainSchema, cfgs, nil)
	if err != nil {
		return 0, err
	}
	cf := &gen.CaseFile{Dir: c.OutDir, Prop: prop, Kind: "dirchain", Requires: []string{"Base.Prelude", "Model.DirChain", "Corr.Corr_DirChain"}, Type: "dc_case",
		Checks: []gen.Check{{Label: "corr", Fn: "dc_corr"}, {Label: "mon", Fn: "dc_mon"}, {Label: "c04", Fn: "dc_mon"}, {Label: "monmodel", Fn: "dc_monmodel"}}, Shard: 500}
	var descr []any
	defer func() { _ = meta.AddCaseFile(cf, descr) }()
	behs := []string{"next", "block", "error", "panic"}
	behCoq := map[string]string{"next": "DNext", "block": "DBlock", "error": "DError", "panic": "DPanic"}
	resCoq := map[string]string{"": "ROk", "null": "RNil", "error": "RFail", "panic": "RBoom"}
	n := 0
	for _, p := range probes {
		if p.Built.Bin == "" {
			meta.Direct = append(meta.Direct, gen.DirectFinding{Signature: "probe-does-not-build", What: "the probe with directives on fields and on their return types does not build for " + p.Cfg.Name + ": " + p.Built.GenErr + p.Built.BuildErr, Replay: map[string]any{"config": p.Cfg.Name}})
			continue
		}
		type planned struct {
			f    chainField
			plan map[string]string
			res  string
		}
		var plans []planned
		for _, f := range chainFields {
			links := append(append([]string{}, f.tdirs...), f.fdirs...)
			total := 1
			for range links {
				total *= len(behs)
			}
			for k := 0; k < total; k++ {
				pl := map[string]string{}
				x := k
				for _, l := range links {
					pl[l] = behs[x%len(behs)]
					x /= len(behs)
				}
				plans = append(plans, planned{f, pl, ""})
			}
			for _, res := range []string{"null", "error", "panic"} {
				pl := map[string]string{}
				for _, l := range links {
					pl[l] = "next"
				}
				plans = append(plans, planned{f, pl, res})
			}
		}
		var cases []xeng.Case
		for i, pl := range plans {
			o := xeng.NewOracle()
			for l, b := range pl.plan {
				if b != "next" {
					o.Guards[pl.f.name+"@"+l] = xeng.FieldPlan{O: b, Tag: l}
				}
			}
			if pl.res != "" {
				o.Fields[pl.f.name] = xeng.FieldPlan{O: pl.res, Tag: "resolver"}
			}
			q := fmt.Sprintf("query Op { %s }", pl.f.name)
			if pl.f.object {
				q = fmt.Sprintf("query Op { %s { id } }", pl.f.name)
			}
			cases = append(cases, xeng.Case{ID: i, Query: q, Oracle: o, TimeoutMs: 4000})
		}
		res, err := xeng.RunAll(p.Built.Bin, cases)
		if err != nil {
			return n, err
		}
		for i, r := range res {
			n++
			pl := plans[i]
			d := map[string]any{"config": p.Cfg.Name, "query": cases[i].Query, "oracle": cases[i].Oracle, "directives_on_the_return_type": pl.f.tdirs, "directives_on_the_field": pl.f.fdirs}
			if r.Crashed || r.Hang || len(r.Responses) != 1 {
				meta.Direct = append(meta.Direct, gen.DirectFinding{Signature: "directive-chain-no-response", What: fmt.Sprintf("config %s, %s with the directive plan %v: crashed=%v hang=%v responses=%d", p.Cfg.Name, cases[i].Query, pl.plan, r.Crashed, r.Hang, len(r.Responses)), Replay: d})
				continue
			}
			var resp struct {
				Data   map[string]json.RawMessage `json:"data"`
				Errors []struct {
					Message string `json:"message"`
					Path    []any  `json:"path"`
				} `json:"errors"`
			}
			if json.Unmarshal(r.Responses[0], &resp) != nil {
				meta.Direct = append(meta.Direct, gen.DirectFinding{Signature: "directive-chain-no-response", What: "response is not JSON: " + string(r.Responses[0]), Replay: d})
				continue
			}
			d["response"] = string(r.Responses[0])
			var log []string
			for _, l := range r.Log {
				if l[1] != pl.f.name {
					continue
				}
				switch {
				case strings.HasPrefix(l[0], "d:"):
					log = append(log, gen.Str(strings.TrimPrefix(l[0], "d:")))
				case l[0] == "r":
					log = append(log, gen.Str("resolver"))
				}
			}
			// what the field was completed from: its value, null, or the one error at its path
			out := "RValue"
			if v, ok := resp.Data[pl.f.name]; !ok || string(v) == "null" {
				out = "RNull"
			}
			bad := ""
			for _, e := range resp.Errors {
				if len(e.Path) != 1 || e.Path[0] != pl.f.name || out == "RValue" || strings.HasPrefix(out, "(") {
					bad = fmt.Sprintf("errors %v beside data %v", resp.Errors, resp.Data)
					break
				}
				switch {
				case strings.HasPrefix(e.Message, "D:"):
					out = fmt.Sprintf("(RErr %s)", gen.Str(strings.TrimPrefix(e.Message, "D:")))
				case strings.HasPrefix(e.Message, "E:"):
					out = fmt.Sprintf("(RErr %s)", gen.Str(strings.TrimPrefix(e.Message, "E:")))
				case strings.HasPrefix(e.Message, "P:boom:"):
					out = fmt.Sprintf("(RPanic %s)", gen.Str(strings.TrimPrefix(e.Message, "P:boom:")))
				default:
					bad = "an error that no directive or resolver raised: " + e.Message
				}
			}
			if bad != "" {
				meta.Direct = append(meta.Direct, gen.DirectFinding{Signature: "directive-chain-errors-not-the-fields", What: fmt.Sprintf("config %s, %s with the directive plan %v: %s", p.Cfg.Name, cases[i].Query, pl.plan, bad), Replay: d})
				continue
			}
			var plan []string
			for l, b := range pl.plan {
				plan = append(plan, fmt.Sprintf("(%s, %s)", gen.Str(l), behCoq[b]))
			}
			strs := func(l []string) string {
				var o []string
				for _, s := range l {
					o = append(o, gen.Str(s))
				}
				return gen.List(o)
			}
			cf.Add(fmt.Sprintf("{| dc_tdirs := %s; dc_fdirs := %s; dc_plan := %s; dc_res := %s; dc_log := %s; dc_out := %s; dc_recovers := %d%%nat |}",
				strs(pl.f.tdirs), strs(pl.f.fdirs), gen.List(plan), resCoq[pl.res], gen.List(log), out, r.Recovers))
			descr = append(descr, d)
		}
	}
	return n, nil
}
