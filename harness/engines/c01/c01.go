// Package c01: generated executors implement GraphQL execution semantics.  Generates the probe servers
// from /repo's current templates, runs random valid operations under random oracles, and prints the
// observed responses for Corr_C01 (model of gqlgen = correspondence, GraphQL algorithm = monitor).
package c01

import (
	"fmt"
	"strings"

	"github.com/vektah/gqlparser/v2"
	"github.com/vektah/gqlparser/v2/ast"
	"github.com/vektah/gqlparser/v2/validator"

	"verifharness/engines/xeng"
	"verifharness/gen"
	"verifharness/qgen"
)

type caseDescr struct {
	Query    string         `json:"query"`
	Vars     map[string]any `json:"variables"`
	Oracle   xeng.Oracle    `json:"oracle"`
	Config   string         `json:"config"`
	Response string         `json:"response"`
	Log      int            `json:"resolver_calls"`
	Sig      string         `json:"sig,omitempty"`
}

type genOp struct {
	query string
	raw   map[string]any
	vars  map[string]any
	op    *ast.OperationDefinition
}

// Corpus: hand-written operations that pin the shapes named in DESIGN section 7 (run first).
var Corpus = []string{
	// an object with exactly one resolver field, non-null, selected twice: both instances fail
	`query Op { solo { x: only y: only plain } scalar }`,
	`query Op { a { ...F @skip(if: true) ...F } } fragment F on A { a1 }`,
	`query Op { named { ... on Node { name } ... on Named { name } } }`,
	`query Op { u { __typename ... on A { __typename a1 } } }`,
	`query Op { as { kids { id ... on A { strictPeer { a1 } } } } b { other { a1 deep { a1 } } } }`,
	`query Op { a { x: a1 x: a1 y: name } a { y: name z: a2 } }`,
	`query Op { nodes { ...N ... on B { items { name tags score } } } } fragment N on Node { id name ...N2 } fragment N2 on Node { name }`,
	`query Op { a { inl inlStrict guarded } guardedRoot { a1 } items { score owner { id } } }`,
	`mutation Op { m1 m2 m3 { a1 kids { id } } m4 { other { a1 } } }`,
	// one object-valued field selected on the interface and again under each concrete type (three selections, so the
	// parsed selection set has spare capacity), in a list whose elements have different concrete types
	`query Op { nodes { link { a1 a2 inl } ... on A { link { name } } ... on B { link { id } } } }`,
	// the same sub-paths under two root response keys: a failure under one must not hide the report of another
	`query Op { a { a1 strictPeer { a1 } } x: a { a1 strictPeer { a1 } } as { a1 } ys: as { a1 } }`,
}

func genOracles(r *gen.Rand, base xeng.Oracle, log [][4]string, n int) []xeng.Oracle {
	var out []xeng.Oracle
	fieldOf := func(l [4]string) *ast.FieldDefinition {
		def := xeng.Schema.Types[l[2]]
		if def == nil {
			return nil
		}
		return def.Fields.ForName(l[3])
	}
	for k := 0; k < n; k++ {
		o := base.Clone()
		if len(log) == 0 {
			out = append(out, o)
			continue
		}
		nf := 1 + r.Intn(3)
		for i := 0; i < nf; i++ {
			l := gen.Pick(r, log)
			fd := fieldOf(l)
			if fd == nil {
				continue
			}
			tag := fmt.Sprintf("t%d", r.Intn(100))
			if l[0] == "g" {
				o.Guards[l[1]] = xeng.FieldPlan{O: gen.Pick(r, []string{"block", "error", "panic"}), Tag: tag}
				continue
			}
			named := xeng.Schema.Types[fd.Type.Name()]
			leafNonNull := fd.Type.NonNull && fd.Type.Elem == nil && (named.Kind == ast.Scalar || named.Kind == ast.Enum)
			abstract := fd.Type.Elem == nil && (named.Kind == ast.Interface || named.Kind == ast.Union)
			choices := []string{"error", "panic"}
			if !leafNonNull {
				choices = append(choices, "null", "null")
			}
			if abstract {
				choices = append(choices, "typednil")
			}
			o.Fields[l[1]] = xeng.FieldPlan{O: gen.Pick(r, choices), Tag: tag}
		}
		out = append(out, o)
	}
	return out
}

// structure assigns list lengths, element nulls, concrete types and inline nulls around the logged positions.
func structure(r *gen.Rand, log [][4]string) xeng.Oracle {
	o := xeng.NewOracle()
	for _, l := range log {
		if l[0] != "r" {
			continue
		}
		def := xeng.Schema.Types[l[2]]
		if def == nil {
			continue
		}
		fd := def.Fields.ForName(l[3])
		if fd == nil {
			continue
		}
		t := fd.Type
		path := l[1]
		var fill func(t *ast.Type, p string, depth int)
		fill = func(t *ast.Type, p string, depth int) {
			if t.Elem != nil {
				n := r.Intn(4)
				if r.Chance(1, 2) {
					o.Lens[p] = n
				} else {
					n = 2
				}
				for i := 0; i < n; i++ {
					ep := fmt.Sprintf("%s.%d", p, i)
					named := xeng.Schema.Types[t.Elem.Name()]
					nilable := t.Elem.Elem != nil || named.Kind == ast.Object || named.Kind == ast.Interface || named.Kind == ast.Union
					if nilable && r.Chance(1, 5) {
						if t.Elem.Elem == nil && (named.Kind == ast.Interface || named.Kind == ast.Union) && r.Chance(1, 3) {
							o.Elems[ep] = "typednil"
						} else {
							o.Elems[ep] = "null"
						}
						continue
					}
					fill(t.Elem, ep, depth+1)
				}
				return
			}
			named := xeng.Schema.Types[t.Name()]
			if named.Kind == ast.Interface || named.Kind == ast.Union {
				ps := xeng.Schema.GetPossibleTypes(named)
				if r.Chance(2, 3) {
					o.Concretes[p] = gen.Pick(r, ps).Name
				}
				if r.Chance(1, 6) {
					o.ValueForm[p] = true
				}
			}
			if (named.Name == "A" || o.Concretes[p] == "A") && r.Chance(1, 4) {
				o.Fields[p+".inl"] = xeng.FieldPlan{O: "null"}
			}
		}
		fill(t, path, 0)
	}
	return o
}

func Run(c *gen.Ctx) error {
	// "identically for every code-style option": the quick tier takes one option that changes the Go shape of lists
	// (elements held by value) next to the two layouts
	cfgs := append(append([]xeng.Config{}, xeng.QuickConfigs...), xeng.ThoroughConfigs[4])
	nops, perOp := 70, 3
	if c.Thorough() {
		cfgs = xeng.ThoroughConfigs
		nops, perOp = 1200, 4
	}
	return RunWith(c, "C01", cfgs, nops, perOp, false)
}

// RunWith is shared with C04 (singleFaults: enumerate every single fault point of every operation).
func RunWith(c *gen.Ctx, prop string, cfgs []xeng.Config, nops, perOp int, singleFaults bool) error {
	return RunFull(c, prop, cfgs, nops, perOp, singleFaults, false)
}

// ExtraChecks, when set, runs additional model-free observations on the built probes and adds direct findings.
var ExtraChecks func(prop string, probes []xeng.Probe, meta *gen.Meta) error

// RunFull: schedules = also run every plan under adversarial resolver delay plans (C06).
func RunFull(c *gen.Ctx, prop string, cfgs []xeng.Config, nops, perOp int, singleFaults, schedules bool) error {
	r := gen.NewRand(c.Seed)
	meta := &gen.Meta{Property: prop}
	// thorough tier of the scheduling property: probes carry the race detector
	probes, err := xeng.BuildProbesRace(xeng.ProbeSchema, cfgs, nil, schedules && c.Thorough())
	if err != nil {
		return err
	}
	// C06: one more probe whose schema declares its root operation types under other names
	// (schema { mutation: Commands }): the executor must treat that root as the mutation root all the same
	renamedIdx := -1
	if schedules {
		renamed := "schema { query: Query mutation: Commands subscription: Subscription }\n" + strings.Replace(xeng.ProbeSchema, "type Mutation {", "type Commands {", 1)
		extra, err := xeng.BuildProbesRace(renamed, []xeng.Config{{Name: cfgs[0].Name + ",mutation-root-renamed", YAML: cfgs[0].YAML}}, nil, false)
		if err != nil {
			return err
		}
		renamedIdx = len(probes)
		probes = append(probes, extra...)
	}
	for _, p := range probes {
		if p.Built.GenErr != "" || p.Built.BuildErr != "" {
			meta.Direct = append(meta.Direct, gen.DirectFinding{Signature: "probe-does-not-build", What: "generation or compilation of the probe server failed for config " + p.Cfg.Name,
				Replay: map[string]any{"config": p.Cfg.Name, "generate": p.Built.GenErr, "build": p.Built.BuildErr}})
		}
	}
	if len(meta.Direct) > 0 {
		meta.Evaluations = 1
		meta.Rule = "probe servers could not be built"
		return meta.Write(c.OutDir)
	}

	if ExtraChecks != nil {
		if err := ExtraChecks(prop, probes, meta); err != nil {
			return err
		}
	}
	if prop == "C01" {
		if err := layoutEquivalence(probes, meta); err != nil {
			return err
		}
	}
	if schedules {
		if err := inFlightTogether(c, probes, meta); err != nil {
			return err
		}
	}

	// ---- operations --------------------------------------------------------------------------------
	var ops []genOp
	load := func(q string, raw map[string]any) bool {
		doc, errs := gqlparser.LoadQuery(xeng.Schema, q)
		if errs != nil {
			return false
		}
		op := doc.Operations[0]
		vars, verr := validator.VariableValues(xeng.Schema, op, raw)
		if verr != nil {
			return false
		}
		ops = append(ops, genOp{q, raw, vars, op})
		return true
	}
	for _, q := range Corpus {
		if !load(q, nil) {
			return fmt.Errorf("corpus operation does not validate: %s", q)
		}
	}
	invalid := 0
	rq := r.Fork(1)
	for len(ops) < nops+len(Corpus) {
		g := qgen.New(rq, xeng.Schema, qgen.Options{MaxDepth: 2 + rq.Intn(4), MaxWidth: 1 + rq.Intn(4), SkipInclude: true, Typename: true, Variables: true,
			FragmentRate: 20 + rq.Intn(40), AliasRate: 25})
		kind := ast.Query
		if rq.Chance(1, 10) {
			kind = ast.Mutation
		}
		q, raw := g.Operation(kind)
		if !load(q, raw) {
			invalid++
		}
	}

	// ---- rounds: default oracle -> structure -> faults; executed on the first probe, then replayed on all
	type planned struct {
		op  int
		orc xeng.Oracle
	}
	var plan []planned
	ro := r.Fork(2)
	p0 := probes[0].Built.Bin
	var round1 []xeng.Case
	for i, op := range ops {
		round1 = append(round1, xeng.Case{ID: i, Query: op.query, Variables: op.raw, Oracle: xeng.NewOracle()})
	}
	res1, err := xeng.RunAll(p0, round1)
	if err != nil {
		return err
	}
	var round2 []xeng.Case
	for i := range ops {
		plan = append(plan, planned{i, xeng.NewOracle()})
		s := structure(ro, res1[i].Log)
		round2 = append(round2, xeng.Case{ID: i, Query: ops[i].query, Variables: ops[i].raw, Oracle: s})
	}
	res2, err := xeng.RunAll(p0, round2)
	if err != nil {
		return err
	}
	// pinned oracles: typed nil pointers inside interface values at non-null and nullable positions
	for i, q := range Corpus {
		if strings.Contains(q, "as { kids { id") {
			o := xeng.NewOracle()
			o.Elems["as.0.kids.1"] = "typednil"
			plan = append(plan, planned{i, o})
			o2 := xeng.NewOracle()
			o2.Fields["as.1.kids"] = xeng.FieldPlan{O: "null"}
			plan = append(plan, planned{i, o2})
		}
		if strings.Contains(q, "solo { x: only y: only") {
			for _, kinds := range [][2]string{{"error", "error"}, {"panic", "error"}, {"error", "panic"}} {
				o := xeng.NewOracle()
				o.Fields["solo.x"] = xeng.FieldPlan{O: kinds[0], Tag: "x"}
				o.Fields["solo.y"] = xeng.FieldPlan{O: kinds[1], Tag: "y"}
				plan = append(plan, planned{i, o})
			}
		}
		if strings.HasPrefix(q, "mutation Op { m1 m2") {
			// non-null fields of the Mutation root (executed serially, on another code path of the object
			// template than Query's): a failing one must null the whole data
			for _, f := range []string{"m2", "m3.a1", "m4.other"} {
				for _, kind := range []string{"error", "panic"} {
					o := xeng.NewOracle()
					o.Fields[f] = xeng.FieldPlan{O: kind, Tag: "pinned"}
					plan = append(plan, planned{i, o})
				}
			}
		}
		if strings.Contains(q, "x: a { a1 strictPeer") {
			// (the second position must be able to hold a nil: a non-null object field, not a non-null scalar)
			for _, pr := range [][2]string{{"a.strictPeer", "x.strictPeer"}, {"x.strictPeer", "a.strictPeer"}, {"a.a1", "x.strictPeer"}} {
				for _, first := range []string{"error", "panic", "null"} {
					o := xeng.NewOracle()
					o.Fields[pr[0]] = xeng.FieldPlan{O: first, Tag: "first"}
					// the second failure is a nil without an error of its own, reported by the executor; it comes later
					o.Fields[pr[1]] = xeng.FieldPlan{O: "null", Delay: 6}
					plan = append(plan, planned{i, o})
				}
			}
			// and list elements: a failing element of one list, a nil element at the same index of the other
			o := xeng.NewOracle()
			o.Fields["as.1.a1"] = xeng.FieldPlan{O: "error", Tag: "first"}
			o.Elems["ys.1"] = "null"
			o.Fields["ys"] = xeng.FieldPlan{Delay: 6}
			plan = append(plan, planned{i, o})
		}
		if strings.Contains(q, "nodes { link {") {
			o := xeng.NewOracle()
			o.Lens["nodes"] = 4
			for k, c := range []string{"A", "B", "A", "B"} {
				o.Concretes[fmt.Sprintf("nodes.%d", k)] = c
				o.Fields[fmt.Sprintf("nodes.%d.link", k)] = xeng.FieldPlan{Delay: 2 + 3*(k%2)}
			}
			plan = append(plan, planned{i, o})
			o2 := o.Clone()
			for k := range []int{0, 1, 2, 3} {
				o2.Fields[fmt.Sprintf("nodes.%d.link", k)] = xeng.FieldPlan{Delay: 6 - 2*(k%2)}
			}
			plan = append(plan, planned{i, o2})
		}
		if strings.Contains(q, "nodes { ...N") {
			o := xeng.NewOracle()
			o.Elems["nodes.0"] = "typednil"
			plan = append(plan, planned{i, o})
		}
	}
	for i := range ops {
		plan = append(plan, planned{i, round2[i].Oracle})
		if singleFaults {
			// every single fault point of the operation (from the model-independent invocation log) x {error, panic}
			for _, o := range allSingleFaults(round2[i].Oracle, res2[i].Log) {
				plan = append(plan, planned{i, o})
			}
			for _, o := range genOracles(ro, round2[i].Oracle, res2[i].Log, perOp) { // random multi-fault sets
				plan = append(plan, planned{i, o})
			}
			continue
		}
		for _, o := range genOracles(ro, round2[i].Oracle, res2[i].Log, perOp) {
			plan = append(plan, planned{i, o})
		}
		for _, o := range genOracles(ro, xeng.NewOracle(), res1[i].Log, 1) {
			plan = append(plan, planned{i, o})
		}
	}

	// ---- execute the plan on every configuration -------------------------------------------------------
	cf := &gen.CaseFile{Dir: c.OutDir, Prop: prop, Kind: "exec", Requires: []string{"Base.Prelude", "Model.Exec", "Corr.Corr_C01"}, Type: "exec_case",
		Checks: []gen.Check{{Label: "corr", Fn: "exec_corr"}, {Label: "mon", Fn: "exec_monitor"}, {Label: "montn", Fn: "exec_monitor_tn"},
			{Label: "c04", Fn: "c04_monitor"}, {Label: "c06", Fn: "c06_monitor"}}, Shard: 60}
	cf.Preamble = "Definition sch : schema := " + xeng.SchemaCoq(xeng.Schema) + "."
	if schedules {
		// the same plans again under schedules induced by resolver delays: random, reversed completion
		// order, one straggler (positions from round 2's log of the operation)
		rs := r.Fork(3)
		base := plan
		for _, p := range base {
			log := res2[p.op].Log
			if len(log) < 2 {
				continue
			}
			for variant := 0; variant < 3; variant++ {
				o := p.orc.Clone()
				for i, l := range log {
					if l[0] != "r" {
						continue
					}
					fp := o.Fields[l[1]]
					switch variant {
					case 0:
						fp.Delay = rs.Intn(6)
					case 1:
						fp.Delay = (len(log) - i) % 7
					default:
						if i == 0 {
							fp.Delay = 8
						}
					}
					if fp.Delay > 0 || fp.O != "" {
						o.Fields[l[1]] = fp
					}
				}
				plan = append(plan, planned{p.op, o})
			}
		}
	}
	var cases []xeng.Case
	for i, p := range plan {
		cases = append(cases, xeng.Case{ID: i, Query: ops[p.op].query, Variables: ops[p.op].raw, Oracle: p.orc})
	}
	all := make([][]xeng.Result, len(probes))
	for pi, p := range probes {
		all[pi], err = xeng.RunAll(p.Built.Bin, cases)
		if err != nil {
			return err
		}
	}
	var descr []any
	distinct := map[string]bool{}
	feat := map[string]int{}
	selTerms := map[int]string{}
	configDiffs := 0
	for i, p := range plan {
		op := ops[p.op]
		if _, ok := selTerms[p.op]; !ok {
			selTerms[p.op] = xeng.SelsCoq(op.op.SelectionSet, op.vars)
		}
		seen := map[string]bool{}
		for pi := range probes {
			res := all[pi][i]
			if pi == renamedIdx && (op.op.Operation != ast.Mutation || strings.Contains(op.query, "__typename") || strings.Contains(op.query, "on Mutation")) {
				continue // the renamed probe is there for mutations; __typename or a type condition would name the root differently
			}
			if res.Crashed || res.Hang {
				meta.Direct = append(meta.Direct, gen.DirectFinding{Signature: "probe-crash-or-hang", What: "the generated server crashed or hung on an operation",
					Replay: map[string]any{"config": probes[pi].Cfg.Name, "query": op.query, "variables": op.raw, "oracle": p.orc, "crashed": res.Crashed, "hang": res.Hang}})
				continue
			}
			first, ok := res.First()
			if !ok {
				meta.Direct = append(meta.Direct, gen.DirectFinding{Signature: "no-response", What: "no response for a valid operation",
					Replay: map[string]any{"config": probes[pi].Cfg.Name, "query": op.query, "create_errors": string(res.CreateErrors)}})
				continue
			}
			root := "Query"
			if op.op.Operation == ast.Mutation {
				root = "Mutation"
			}
			orderTerm := "[]"
			if root == "Mutation" {
				orderTerm = xeng.OrderCoq(res.Order)
			}
			term := fmt.Sprintf("{| xc_schema := sch; xc_root := %s; xc_sels := %s; xc_oracle := %s; xc_data := %s; xc_errors := %s; xc_log := %s; xc_recovers := %d%%nat; xc_order := %s |}",
				gen.Str(root), selTerms[p.op], p.orc.Effective(res.Ignored).Coq(), first.DataTerm(), first.ErrorsTerm(), xeng.LogCoq(res.Log), res.Recovers, orderTerm)
			if seen[term] {
				continue // this configuration behaves exactly like an earlier one on this case
			}
			if len(seen) > 0 {
				configDiffs++
			}
			seen[term] = true
			sig := ""
			if xeng.HasDupKey(first.Data) && xeng.UnrelatedDup(xeng.Schema, op.op.SelectionSet) {
				sig = "duplicate-response-key-under-unrelated-type-conditions"
			}
			for _, f := range p.orc.Fields {
				if f.O == "typednil" && sig == "" {
					sig = "typed-nil-in-abstract-position"
				}
			}
			for _, e := range p.orc.Elems {
				if e == "typednil" && sig == "" {
					sig = "typed-nil-in-abstract-position"
				}
			}
			cf.Add(term)
			descr = append(descr, caseDescr{op.query, op.raw, p.orc, probes[pi].Cfg.Name, string(res.Responses[0]), len(res.Log), sig})
			if len(res.Log) > 1 && (len(p.orc.Fields) > 0 || len(p.orc.Guards) > 0) {
				distinct[op.query+"|"+p.orc.Coq()] = true
			}
			feat["errors_in_response"] += len(first.Errors)
			if string(first.Data) == "null" {
				feat["data_null"]++
			}
		}
	}
	for _, op := range ops {
		for _, kw := range []string{"...", "@skip", "@include", "__typename", " on "} {
			if strings.Contains(op.query, kw) {
				feat["ops_with_"+kw]++
			}
		}
	}
	if err := meta.AddCaseFile(cf, descr); err != nil {
		return err
	}
	if !schedules {
		ndc, err := directiveChains(c, prop, cfgs, meta)
		if err != nil {
			return err
		}
		meta.Notes = append(meta.Notes, fmt.Sprintf("%d executions over every assignment of {calls next, answers null, fails, panics} to the links of directive chains made of a field's own directives and those of its return type (1 to 4 links): invocation order, outcome and recover count compared with Model.DirChain", ndc))
	}
	if schedules {
		nstray, err := strayElementSchedules(c.OutDir, meta, c.Thorough())
		if err != nil {
			return err
		}
		meta.Notes = append(meta.Notes, fmt.Sprintf("%d executions of a list one of whose element goroutines panics inside generated code beside its siblings, the same request 16 times per configuration: one response every time (thorough: under the race detector)", nstray))
	}
	if schedules {
		nre, err := resolverExtensions(meta, c.Thorough())
		if err != nil {
			return err
		}
		meta.Notes = append(meta.Notes, fmt.Sprintf("%d executions in which every resolver call registers a response extension of its own beside its concurrently resolved siblings: one extension per call in the response", nre))
	}
	for _, rep := range xeng.Races {
		meta.Direct = append(meta.Direct, gen.DirectFinding{Signature: "data-race-reported", What: "the Go race detector reported a data race in the generated executor / runtime", Replay: map[string]any{"report": rep}})
	}
	meta.Evaluations = len(plan) * len(probes)
	meta.Programs = len(probes)
	meta.DistinctNontrivial = len(distinct)
	meta.Rule = "probe servers generated at check time by api.Generate from /repo's templates for each configuration (quick: single-file/worker_limit 0 and follow-schema/worker_limit 2/function syntax; thorough: 8 configurations) over the probe schema (interfaces, union, lists of every nullability nesting, schema directive, inline and resolver fields); a pinned corpus plus random valid operations (fragments, overlapping type conditions, repeated spreads, aliases, @skip/@include with variables, __typename) x oracles in three rounds (default; list lengths / element nulls / concrete types / inline nulls; 1-3 faults {null, error, panic, typed nil, directive block/error/panic} at positions taken from the invocation log). One Coq case per (operation, oracle) and per distinct observed behaviour across configurations. distinct_nontrivial = distinct (operation, oracle) with >= 2 resolver calls and >= 1 fault."
	meta.Samples = []any{descr[0], descr[len(descr)/2], descr[len(descr)-1]}
	meta.Distribution = map[string]any{"operations": len(ops), "generated_but_invalid_discarded": invalid, "plans": len(plan), "configurations": len(probes),
		"cases_where_configurations_differ": configDiffs, "features": feat}
	return meta.Write(c.OutDir)
}

// allSingleFaults: for each logged invocation, one oracle with an error there and one with a panic there
// (directive invocations: block, error, panic).
func allSingleFaults(base xeng.Oracle, log [][4]string) []xeng.Oracle {
	var out []xeng.Oracle
	seen := map[string]bool{}
	for _, l := range log {
		key := l[0] + l[1]
		if seen[key] {
			continue
		}
		seen[key] = true
		for _, kind := range []string{"error", "panic"} {
			o := base.Clone()
			if l[0] == "g" {
				o.Guards[l[1]] = xeng.FieldPlan{O: kind, Tag: "sf"}
			} else {
				o.Fields[l[1]] = xeng.FieldPlan{O: kind, Tag: "sf"}
			}
			out = append(out, o)
		}
	}
	return out
}
