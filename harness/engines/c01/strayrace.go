package c01

import (
	"encoding/json"
	"fmt"
	"strings"

	"verifharness/engines/c05"
	"verifharness/engines/xeng"
	"verifharness/gen"
)

// strayElementSchedules (C06): a list in which one element's goroutine panics inside generated code while its
// siblings are being marshalled beside it.  Whatever the completion order, the response is the same on every run
// (and, thorough tier, the race detector stays silent: each element goroutine writes its own slot only).
func strayElementSchedules(outDir string, meta *gen.Meta, thorough bool) (int, error) {
	cf := &gen.CaseFile{Dir: outDir, Prop: "C06", Kind: "elems", Requires: []string{"Base.Prelude", "Model.ElemPanic", "Corr.Corr_Elems"}, Type: "elem_case",
		Checks: []gen.Check{{Label: "corr", Fn: "elem_corr"}, {Label: "c06", Fn: "elem_mon"}, {Label: "monmodel", Fn: "elem_monmodel"}}, Shard: 400}
	var descr []any
	defer func() { _ = meta.AddCaseFile(cf, descr) }()
	cfgs := []xeng.Config{xeng.QuickConfigs[0], xeng.QuickConfigs[1]}
	if thorough {
		cfgs = append(cfgs, xeng.ThoroughConfigs[2], xeng.ThoroughConfigs[3])
	}
	probes, err := xeng.BuildProbesRace(xeng.ProbeSchema, cfgs, map[string]string{"stray.go": c05.StrayFile}, thorough)
	if err != nil {
		return 0, err
	}
	n := 0
	for _, p := range probes {
		if p.Built.Bin == "" {
			meta.Direct = append(meta.Direct, gen.DirectFinding{Signature: "probe-does-not-build", What: "the probe with an extra Go type does not build: " + p.Built.GenErr + p.Built.BuildErr, Replay: map[string]any{"config": p.Cfg.Name}})
			continue
		}
		for _, bad := range []int{0, 2} {
			o := xeng.NewOracle()
			o.Lens["nodes"] = 5
			o.Concretes[fmt.Sprintf("nodes.%d", bad)] = "Stray"
			var cases []xeng.Case
			for k := 0; k < 16; k++ {
				cases = append(cases, xeng.Case{ID: k, Query: `query Op { nodes { id name } scalar }`, Oracle: o, TimeoutMs: 4000})
			}
			res, err := xeng.RunAll(p.Built.Bin, cases)
			if err != nil {
				return n, err
			}
			first := ""
			for k, r := range res {
				n++
				got := fmt.Sprintf("crashed=%v hang=%v", r.Crashed, r.Hang)
				if len(r.Responses) > 0 {
					got = string(r.Responses[0])
				}
				if k == 0 {
					first = got
				}
				// the answer, element by element, for the model and the monitor in Coq (Corr_Elems)
				var resp struct {
					Data struct {
						Nodes []*struct{ ID string } `json:"nodes"`
					} `json:"data"`
					Errors []struct {
						Path []any `json:"path"`
					} `json:"errors"`
				}
				if len(r.Responses) > 0 && json.Unmarshal(r.Responses[0], &resp) == nil && len(resp.Data.Nodes) == 5 {
					errs := make([]int, 5)
					for _, e := range resp.Errors {
						if len(e.Path) == 2 && e.Path[0] == "nodes" {
							if f, ok := e.Path[1].(float64); ok && f >= 0 && f < 5 {
								errs[int(f)]++
							}
						}
					}
					var plan, nulls, es []string
					for i, e := range resp.Data.Nodes {
						plan = append(plan, gen.Bool(i == bad))
						nulls = append(nulls, gen.Bool(e == nil))
						es = append(es, fmt.Sprint(errs[i]))
					}
					cf.Add(fmt.Sprintf("{| ec_plan := [%s]; ec_nulls := [%s]; ec_errs := [%s]%%nat; ec_recovers := %d%%nat |}",
						strings.Join(plan, "; "), strings.Join(nulls, "; "), strings.Join(es, "; "), r.Recovers))
					descr = append(descr, map[string]any{"config": p.Cfg.Name, "query": cases[k].Query, "oracle": o, "run": k, "panicking_element": bad, "response": got, "recovers": r.Recovers})
				}
				if got != first || r.Crashed || r.Hang {
					meta.Direct = append(meta.Direct, gen.DirectFinding{Signature: "result-depends-on-element-schedule",
						What:   fmt.Sprintf("config %s: a list of 5 whose element %d panics in its goroutine inside generated code, the same request 16 times: run 0 answered %s, run %d answered %s", p.Cfg.Name, bad, first, k, got),
						Replay: map[string]any{"config": p.Cfg.Name, "query": cases[0].Query, "oracle": o}})
					break
				}
			}
		}
	}
	return n, nil
}

// resolverExtensions (C06): every resolver call registers a response extension of its own while its siblings run
// beside it (root fields of a query, list elements).  Whatever the schedule, the response carries one extension per
// resolver call - none is lost (thorough tier: under the race detector).
func resolverExtensions(meta *gen.Meta, thorough bool) (int, error) {
	cfgs := []xeng.Config{xeng.QuickConfigs[0], xeng.QuickConfigs[1]}
	probes, err := xeng.BuildProbesRace(xeng.ProbeSchema, cfgs, nil, thorough)
	if err != nil {
		return 0, err
	}
	reps := 150
	if thorough {
		reps = 400
	}
	n := 0
	for _, p := range probes {
		if p.Built.Bin == "" {
			continue
		}
		var cases []xeng.Case
		for k := 0; k < reps; k++ {
			q := `query Op { a { a1 } b { id } nodes { id } as { a1 } scalar strict items { name } }`
			if k%2 == 1 {
				q = `query Op { as { id kids { id } peer { id } } }`
			}
			cases = append(cases, xeng.Case{ID: k, Query: q, Oracle: xeng.NewOracle(), RegisterExt: true, TimeoutMs: 4000})
		}
		res, err := xeng.RunAll(p.Built.Bin, cases)
		if err != nil {
			return n, err
		}
		for k, r := range res {
			n++
			if r.Crashed || r.Hang || len(r.Responses) == 0 {
				meta.Direct = append(meta.Direct, gen.DirectFinding{Signature: "no-response", What: fmt.Sprintf("config %s, %s: no response (crashed=%v hang=%v create errors %s)", p.Cfg.Name, cases[k].Query, r.Crashed, r.Hang, string(r.CreateErrors)),
					Replay: map[string]any{"config": p.Cfg.Name, "query": cases[k].Query}})
				break
			}
			var resp struct {
				Extensions map[string]any `json:"extensions"`
			}
			_ = json.Unmarshal(r.Responses[0], &resp)
			calls := 0
			for _, l := range r.Log {
				if l[0] == "r" {
					calls++
				}
			}
			if len(resp.Extensions) != calls {
				meta.Direct = append(meta.Direct, gen.DirectFinding{Signature: "response-extension-lost",
					What:   fmt.Sprintf("config %s, %s, run %d: %d resolver calls each registered a response extension of its own, the response carries %d", p.Cfg.Name, cases[k].Query, k, calls, len(resp.Extensions)),
					Replay: map[string]any{"config": p.Cfg.Name, "query": cases[k].Query, "response": string(r.Responses[0])}})
				break
			}
		}
	}
	return n, nil
}
