package c01

import (
	"fmt"

	"verifharness/engines/c05"
	"verifharness/engines/xeng"
	"verifharness/gen"
)

// strayElementSchedules (C06): a list in which one element's goroutine panics inside generated code while its
// siblings are being marshalled beside it.  Whatever the completion order, the response is the same on every run
// (and, thorough tier, the race detector stays silent: each element goroutine writes its own slot only).
func strayElementSchedules(meta *gen.Meta, thorough bool) (int, error) {
	cfgs := []xeng.Config{xeng.QuickConfigs[0], xeng.QuickConfigs[1]}
	if thorough {
		cfgs = append(cfgs, xeng.ThoroughConfigs[2], xeng.ThoroughConfigs[3])
	}
	probes, err := xeng.BuildProbesRace(xeng.ProbeSchema, cfgs, map[string]string{"stray.go": c05.StrayFile}, thorough)
	if err != nil {
		return 0, err
	}
	n := 0
	for _, p := range probes {
		if p.Built.Bin == "" {
			meta.Direct = append(meta.Direct, gen.DirectFinding{Signature: "probe-does-not-build", What: "the probe with an extra Go type does not build: " + p.Built.GenErr + p.Built.BuildErr, Replay: map[string]any{"config": p.Cfg.Name}})
			continue
		}
		for _, bad := range []int{0, 2} {
			o := xeng.NewOracle()
			o.Lens["nodes"] = 5
			o.Concretes[fmt.Sprintf("nodes.%d", bad)] = "Stray"
			var cases []xeng.Case
			for k := 0; k < 16; k++ {
				cases = append(cases, xeng.Case{ID: k, Query: `query Op { nodes { id name } scalar }`, Oracle: o, TimeoutMs: 4000})
			}
			res, err := xeng.RunAll(p.Built.Bin, cases)
			if err != nil {
				return n, err
			}
			first := ""
			for k, r := range res {
				n++
				got := fmt.Sprintf("crashed=%v hang=%v", r.Crashed, r.Hang)
				if len(r.Responses) > 0 {
					got = string(r.Responses[0])
				}
				if k == 0 {
					first = got
				}
				if got != first || r.Crashed || r.Hang {
					meta.Direct = append(meta.Direct, gen.DirectFinding{Signature: "result-depends-on-element-schedule",
						What:   fmt.Sprintf("config %s: a list of 5 whose element %d panics in its goroutine inside generated code, the same request 16 times: run 0 answered %s, run %d answered %s", p.Cfg.Name, bad, first, k, got),
						Replay: map[string]any{"config": p.Cfg.Name, "query": cases[0].Query, "oracle": o}})
					break
				}
			}
		}
	}
	return n, nil
}
