package c01

import (
	"fmt"
	"sort"
	"strings"

	"verifharness/engines/xeng"
	"verifharness/gen"
)

// Operations that apply an executable (FIELD) directive to fields of the root and of objects declared in another schema
// file than the directive.  The clause "identical for every exec layout and configuration" is judged directly: every probe
// must give the answer and the multiset of resolver / directive invocations the first one gives.
var markedOps = []string{
	`query Op { scalar @mark(tag: "r") a { id name @mark(tag: "n") a1 @mark } }`,
	`query Op { as { id @mark name kids { id @mark(tag: "k") } } strict @mark }`,
	`query Op { b { b1 @mark other { a1 @mark(tag: "o") inl @mark } items { name @mark tags @mark } } }`,
	`query Op { nodes { id ... on A { a2 @mark strictPeer { a1 @mark } } ... on B { b1 @mark } } }`,
	`mutation Op { m1 @mark m3 { a1 @mark kids { id } } }`,
}

func layoutEquivalence(probes []xeng.Probe, meta *gen.Meta) error {
	type plan struct {
		q   string
		orc xeng.Oracle
		why string
	}
	var plans []plan
	for _, q := range markedOps {
		if strings.HasPrefix(q, "mutation") && !strings.Contains(xeng.ProbeSchema, "type Mutation") {
			continue
		}
		plans = append(plans, plan{q, xeng.NewOracle(), "no failure"})
	}
	// the directive blocks, fails or panics at one marked position
	block := xeng.NewOracle()
	block.Guards["a.a1"] = xeng.FieldPlan{O: "block"}
	plans = append(plans, plan{markedOps[0], block, "the directive does not call next at a.a1 (non-null field)"})
	fail := xeng.NewOracle()
	fail.Guards["a.name"] = xeng.FieldPlan{O: "error", Tag: "d"}
	plans = append(plans, plan{markedOps[0], fail, "the directive fails at a.name"})
	pan := xeng.NewOracle()
	pan.Guards["b.other.a1"] = xeng.FieldPlan{O: "panic", Tag: "p"}
	plans = append(plans, plan{markedOps[2], pan, "the directive panics at b.other.a1 (non-null field)"})
	var cases []xeng.Case
	for i, p := range plans {
		cases = append(cases, xeng.Case{ID: i, Query: p.q, Oracle: p.orc, TimeoutMs: 4000})
	}
	canon := func(res xeng.Result) string {
		var log []string
		for _, l := range res.Log {
			log = append(log, strings.Join(l[:], "|"))
		}
		sort.Strings(log)
		var rs []string
		for _, r := range res.Responses {
			rs = append(rs, string(r))
		}
		return fmt.Sprintf("responses=%v recovers=%d log=%v", rs, res.Recovers, log)
	}
	var ref []string
	n := 0
	for pi, pr := range probes {
		results, err := xeng.RunAll(pr.Built.Bin, cases)
		if err != nil {
			return err
		}
		for i, res := range results {
			n++
			if res.Crashed || res.Hang || len(res.Responses) == 0 {
				meta.Direct = append(meta.Direct, gen.DirectFinding{Signature: "marked-operation-no-response", What: "no response to an operation with an executable directive (" + plans[i].why + ") on " + pr.Cfg.Name,
					Replay: map[string]any{"config": pr.Cfg.Name, "query": plans[i].q, "oracle": plans[i].orc}})
				continue
			}
			c := canon(res)
			marks := 0
			for _, l := range res.Log {
				if l[0] == "g" {
					marks++
				}
			}
			if marks == 0 {
				meta.Direct = append(meta.Direct, gen.DirectFinding{Signature: "executable-directive-not-invoked", What: "the executable directive of the operation was never invoked on " + pr.Cfg.Name,
					Replay: map[string]any{"config": pr.Cfg.Name, "query": plans[i].q, "oracle": plans[i].orc, "observed": c}})
			}
			if pi == 0 {
				ref = append(ref, c)
				continue
			}
			if i < len(ref) && ref[i] != c {
				meta.Direct = append(meta.Direct, gen.DirectFinding{Signature: "exec-layouts-differ",
					What:   fmt.Sprintf("the same operation (%s) is answered differently by the executors generated for %s and %s", plans[i].why, probes[0].Cfg.Name, pr.Cfg.Name),
					Replay: map[string]any{"query": plans[i].q, "oracle": plans[i].orc, probes[0].Cfg.Name: ref[i], pr.Cfg.Name: c}})
			}
		}
	}
	meta.Notes = append(meta.Notes, fmt.Sprintf("%d runs of operations that apply an executable (FIELD) directive to root fields and to fields of objects declared in another schema file than the directive (no failure; the directive blocking, failing, panicking at a marked position): every generated configuration must answer, and invoke resolvers and directives, exactly like the first", n))
	return nil
}
