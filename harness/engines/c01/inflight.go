package c01

import (
	"fmt"
	"strings"

	"verifharness/engines/xeng"
	"verifharness/gen"
)

// inFlightTogether: several different queries executed AT THE SAME TIME on one executable schema (one generated
// executor, as one server process has), round after round; the probe compares what each gets with what it gets when it
// runs alone.  One request's result must never depend on the requests beside it.
func inFlightTogether(c *gen.Ctx, probes []xeng.Probe, meta *gen.Meta) error {
	var batch []xeng.Case
	for i, q := range Corpus {
		if !strings.HasPrefix(q, "query") || strings.Contains(q, "@defer") {
			continue
		}
		batch = append(batch, xeng.Case{ID: i, Query: q, Oracle: xeng.NewOracle()})
		if len(batch) == 12 {
			break
		}
	}
	// and small queries with results of different lengths, so that a response holding another request's bytes shows
	for i, q := range []string{`{ scalar }`, `{ strict }`, `{ a { a1 } }`, `{ a { a2 name } }`, `{ b { b1 name } }`, `{ as { id } }`, `{ nodes { id name } }`,
		`{ items { name tags } }`, `{ u { __typename } }`, `{ named { name } }`, `{ x: scalar y: strict }`, `{ a { inl inlStrict id } }`, `{ b { other { a1 a2 } } }`,
		`{ as { kids { id } } }`, `{ node { id name } }`, `{ us { __typename } }`} {
		batch = append(batch, xeng.Case{ID: 100 + i, Query: "query Op " + q, Oracle: xeng.NewOracle()})
	}
	rounds := 150
	if c.Thorough() {
		rounds = 1500
	}
	runs := 0
	for _, p := range probes {
		res, err := xeng.RunAll(p.Built.Bin, []xeng.Case{{ID: 1, Batch: batch, Rounds: rounds}})
		if err != nil {
			return err
		}
		runs += res[0].BatchRuns
		if res[0].Crashed {
			meta.Direct = append(meta.Direct, gen.DirectFinding{Signature: "probe-crashed-with-requests-in-flight-together",
				What: fmt.Sprintf("config %s: the probe process died while %d queries were executed at the same time", p.Cfg.Name, len(batch)), Replay: map[string]any{"config": p.Cfg.Name, "queries": batch}})
			continue
		}
		for k, d := range res[0].BatchDiffs {
			if k >= 2 {
				break
			}
			meta.Direct = append(meta.Direct, gen.DirectFinding{Signature: "result-depends-on-requests-in-flight-beside-it",
				What: fmt.Sprintf("config %s, %d queries executed at the same time on one executable schema (round %d): %s was answered %s (hang: %v); alone it is answered %s",
					p.Cfg.Name, len(batch), d.Round, batch[d.Index].Query, joinRaw(d.Got), d.Hang, joinRaw(d.Want)),
				Replay: map[string]any{"config": p.Cfg.Name, "queries": batch, "round": d.Round, "index": d.Index}})
		}
	}
	meta.Notes = append(meta.Notes, fmt.Sprintf("%d executions of %d different queries at the same time on one executable schema per configuration (%d rounds), each compared with its own sequential run", runs, len(batch), rounds))
	return nil
}

func joinRaw[T ~[]byte](l []T) string {
	var parts []string
	for _, x := range l {
		s := string(x)
		if len(s) > 300 {
			s = s[:300] + "..."
		}
		parts = append(parts, s)
	}
	return "[" + strings.Join(parts, " | ") + "]"
}
