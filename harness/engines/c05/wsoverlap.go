package c05

import (
	"context"
	"encoding/json"
	"fmt"
	"net/http"
	"net/http/httptest"
	"strings"
	"sync"
	"time"

	"github.com/gorilla/websocket"
	"github.com/vektah/gqlparser/v2/ast"

	"github.com/99designs/gqlgen/graphql"
	"github.com/99designs/gqlgen/graphql/handler"
	"github.com/99designs/gqlgen/graphql/handler/transport"

	"verifharness/gen"
)

// websocketOverlap: two operations in flight on one connection - an older one that ends while a younger one is still
// running - and then the younger one is stopped, or the connection is closed (the InitFunc context is detached from
// the request, so that nothing but the transport's own bookkeeping cancels an operation).  Every operation's context
// must be cancelled, its frames must carry its own id, and no goroutine of the transport may stay behind.
func websocketOverlap(meta *gen.Meta) int {
	n := 0
	for _, ending := range []string{"stop the younger operation", "close the connection"} {
		for _, proto := range []string{"graphql-ws", "graphql-transport-ws"} {
			n++
			var mu sync.Mutex
			cancelled := map[string]bool{}
			release := make(chan struct{})
			es := &graphql.ExecutableSchemaMock{
				SchemaFunc: func() *ast.Schema { return tSchema },
				ComplexityFunc: func(ctx context.Context, typeName, fieldName string, childComplexity int, args map[string]any) (int, bool) {
					return 0, false
				},
				ExecFunc: func(ctx context.Context) graphql.ResponseHandler {
					name := graphql.GetOperationContext(ctx).OperationName
					sent := false
					return func(ctx context.Context) *graphql.Response {
						if name == "Older" {
							if sent {
								return nil
							}
							sent = true
							<-release
							return &graphql.Response{Data: json.RawMessage(`{"a":"older"}`)}
						}
						<-ctx.Done() // the younger operation runs until it is cancelled
						mu.Lock()
						cancelled[name] = true
						mu.Unlock()
						return nil
					}
				},
			}
			srv := handler.New(es)
			srv.AddTransport(transport.Websocket{
				Upgrader: websocket.Upgrader{CheckOrigin: func(r *http.Request) bool { return true }},
				InitFunc: func(ctx context.Context, p transport.InitPayload) (context.Context, *transport.InitPayload, error) {
					return context.WithoutCancel(ctx), nil, nil
				}})
			ts := httptest.NewServer(srv)
			conn, _, err := (&websocket.Dialer{Subprotocols: []string{proto}}).Dial("ws"+strings.TrimPrefix(ts.URL, "http"), nil)
			if err != nil {
				ts.Close()
				continue
			}
			start, stop := "start", "stop"
			if proto == "graphql-transport-ws" {
				start, stop = "subscribe", "complete"
			}
			send := func(s string) { _ = conn.WriteMessage(websocket.TextMessage, []byte(s)) }
			send(`{"type":"connection_init"}`)
			send(fmt.Sprintf(`{"type":%q,"id":"older","payload":{"query":"query Older { a }","operationName":"Older"}}`, start))
			time.Sleep(10 * time.Millisecond)
			send(fmt.Sprintf(`{"type":%q,"id":"younger","payload":{"query":"query Younger { a }","operationName":"Younger"}}`, start))
			time.Sleep(10 * time.Millisecond)
			close(release)
			// the older operation's result and completion
			var problems []string
			frames := map[string][]string{}
			_ = conn.SetReadDeadline(time.Now().Add(2 * time.Second))
			for len(frames["older"]) < 2 {
				_, b, err := conn.ReadMessage()
				if err != nil {
					break
				}
				var f struct{ Type, ID string }
				if json.Unmarshal(b, &f) == nil && f.ID != "" {
					frames[f.ID] = append(frames[f.ID], f.Type)
				}
			}
			if got := strings.Join(frames["older"], ","); got != "data,complete" && got != "next,complete" {
				problems = append(problems, fmt.Sprintf("the older operation's frames are %q under its id (frames by id: %v)", got, frames))
			}
			if ending == "stop the younger operation" {
				send(fmt.Sprintf(`{"type":%q,"id":"younger"}`, stop))
			} else {
				_ = conn.Close()
			}
			ok := false
			for t := 0; t < 300 && !ok; t++ {
				mu.Lock()
				ok = cancelled["Younger"]
				mu.Unlock()
				if !ok {
					time.Sleep(5 * time.Millisecond)
				}
			}
			if !ok {
				problems = append(problems, "the younger operation's context was not cancelled within 1.5 s")
			}
			_ = conn.Close()
			var left []string
			for t := 0; t < 400; t++ {
				if left = transportGoroutines(); len(left) == 0 {
					break
				}
				time.Sleep(5 * time.Millisecond)
			}
			if len(left) > 0 {
				problems = append(problems, fmt.Sprintf("%d goroutine(s) of the transport still alive 2 s after the connection ended: %v", len(left), left))
			}
			if len(problems) > 0 {
				// let a stranded operation go, so that it does not show up in later censuses
				meta.Direct = append(meta.Direct, gen.DirectFinding{Signature: "websocket-overlapping-operations-not-cancelled",
					What:   fmt.Sprintf("websocket (%s), an older operation ends while a younger one runs, then %s: %s", proto, ending, strings.Join(problems, "; ")),
					Replay: map[string]any{"subprotocol": proto, "ending": ending, "frames_by_id": frames}})
				ts.CloseClientConnections()
				return n
			}
			ts.Close()
		}
	}
	return n
}
