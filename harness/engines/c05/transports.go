package c05

import (
	"context"
	"encoding/json"
	"fmt"
	"net/http"
	"net/http/httptest"
	"runtime"
	"strings"
	"sync"
	"time"

	"github.com/gorilla/websocket"
	"github.com/vektah/gqlparser/v2"
	"github.com/vektah/gqlparser/v2/ast"

	"github.com/99designs/gqlgen/graphql"
	"github.com/99designs/gqlgen/graphql/handler"
	"github.com/99designs/gqlgen/graphql/handler/transport"

	"verifharness/gen"
)

var tSchema = gqlparser.MustLoadSchema(&ast.Source{Name: "t.graphqls", Input: `type Query { a: String }`})

// slowWriter is a client that reads slowly: every write takes a while.
type slowWriter struct {
	mu    sync.Mutex
	hdr   http.Header
	delay time.Duration
	body  strings.Builder
}

func (w *slowWriter) Header() http.Header { return w.hdr }
func (w *slowWriter) WriteHeader(int)     {}
func (w *slowWriter) Write(b []byte) (int, error) {
	time.Sleep(w.delay)
	w.mu.Lock()
	w.body.Write(b)
	w.mu.Unlock()
	return len(b), nil
}
func (w *slowWriter) Flush() { time.Sleep(w.delay / 2) }

func transportGoroutines() []string {
	buf := make([]byte, 1<<20)
	buf = buf[:runtime.Stack(buf, true)]
	var out []string
	for _, g := range strings.Split(string(buf), "\n\n") {
		if strings.Contains(g, "graphql/handler/transport.") {
			lines := strings.Split(g, "\n")
			top := lines[0]
			for _, l := range lines {
				if strings.Contains(l, "graphql/handler/transport.") {
					top += " " + strings.TrimSpace(l)
					break
				}
			}
			out = append(out, top)
		}
	}
	return out
}

// websocketEndings: websocket connections that end before, at and after the handshake (silent client with an init
// timeout, client that leaves, a finished subscription): nothing of the transport may stay behind.
func websocketEndings(meta *gen.Meta) int {
	es := &graphql.ExecutableSchemaMock{
		SchemaFunc: func() *ast.Schema { return tSchema },
		ComplexityFunc: func(ctx context.Context, typeName, fieldName string, childComplexity int, args map[string]any) (int, bool) {
			return 0, false
		},
		ExecFunc: func(ctx context.Context) graphql.ResponseHandler {
			return graphql.OneShot(&graphql.Response{Data: json.RawMessage(`{"a":"x"}`)})
		},
	}
	n := 0
	for _, sc := range []string{"silent client, init timeout", "client leaves before init", "init then leave", "one operation then leave"} {
		for _, proto := range []string{"graphql-ws", "graphql-transport-ws"} {
			n++
			srv := handler.New(es)
			srv.AddTransport(transport.Websocket{InitTimeout: 25 * time.Millisecond, KeepAlivePingInterval: 5 * time.Millisecond,
				Upgrader: websocket.Upgrader{CheckOrigin: func(r *http.Request) bool { return true }}})
			ts := httptest.NewServer(srv)
			conn, _, err := (&websocket.Dialer{Subprotocols: []string{proto}}).Dial("ws"+strings.TrimPrefix(ts.URL, "http"), nil)
			if err != nil {
				ts.Close()
				continue
			}
			readAll := func(d time.Duration) {
				_ = conn.SetReadDeadline(time.Now().Add(d))
				for {
					if _, _, err := conn.ReadMessage(); err != nil {
						return
					}
				}
			}
			switch sc {
			case "silent client, init timeout":
				readAll(500 * time.Millisecond) // the server closes after the init timeout
			case "client leaves before init":
				time.Sleep(5 * time.Millisecond)
			case "init then leave":
				_ = conn.WriteMessage(websocket.TextMessage, []byte(`{"type":"connection_init"}`))
				time.Sleep(10 * time.Millisecond)
			case "one operation then leave":
				_ = conn.WriteMessage(websocket.TextMessage, []byte(`{"type":"connection_init"}`))
				start := `{"type":"start","id":"1","payload":{"query":"{ a }"}}`
				if proto == "graphql-transport-ws" {
					start = `{"type":"subscribe","id":"1","payload":{"query":"{ a }"}}`
				}
				_ = conn.WriteMessage(websocket.TextMessage, []byte(start))
				time.Sleep(15 * time.Millisecond)
			}
			_ = conn.Close()
			var left []string
			for t := 0; t < 400; t++ {
				if left = transportGoroutines(); len(left) == 0 {
					break
				}
				time.Sleep(5 * time.Millisecond)
			}
			ts.Close()
			if len(left) > 0 {
				meta.Direct = append(meta.Direct, gen.DirectFinding{Signature: "websocket-transport-leaves-goroutines",
					What:   fmt.Sprintf("websocket (%s), %s: %d goroutine(s) of the transport still alive 2 s after the connection ended: %v", proto, sc, len(left), left),
					Replay: map[string]any{"subprotocol": proto, "scenario": sc, "goroutines": left}})
				return n
			}
		}
	}
	return n
}

// streamingTransports: the streaming HTTP transports in front of an operation that ends (1..3 payloads), keep-alive /
// flush tickers running, slow and fast clients: the handler must return and nothing of the transport may stay behind.
func streamingTransports(meta *gen.Meta, thorough bool) int {
	rounds := 12
	if thorough {
		rounds = 120
	}
	n := 0
	for _, kind := range []string{"sse", "multipart"} {
		for _, writeDelay := range []time.Duration{0, 300 * time.Microsecond, 3 * time.Millisecond} {
			for _, tick := range []time.Duration{50 * time.Microsecond, time.Millisecond} {
				for i := 0; i < rounds; i++ {
					if writeDelay >= time.Millisecond && i >= rounds/3 {
						break // slow clients cost real time
					}
					payloads := 1 + i%3
					es := &graphql.ExecutableSchemaMock{
						SchemaFunc: func() *ast.Schema { return tSchema },
						ComplexityFunc: func(ctx context.Context, typeName, fieldName string, childComplexity int, args map[string]any) (int, bool) {
							return 0, false
						},
						ExecFunc: func(ctx context.Context) graphql.ResponseHandler {
							k := 0
							return func(ctx context.Context) *graphql.Response {
								if k >= payloads {
									return nil
								}
								k++
								hn := k < payloads
								return &graphql.Response{Data: json.RawMessage(`{"a":"x"}`), HasNext: &hn}
							}
						},
					}
					srv := handler.New(es)
					srv.AddTransport(transport.SSE{KeepAlivePingInterval: tick})
					srv.AddTransport(transport.MultipartMixed{Boundary: "graphql", DeliveryTimeout: tick})
					ctx, cancel := context.WithCancel(context.Background())
					req := httptest.NewRequest("POST", "/query", strings.NewReader(`{"query":"{ a }"}`)).WithContext(ctx)
					req.Header.Set("Content-Type", "application/json")
					if kind == "sse" {
						req.Header.Set("Accept", "text/event-stream")
					} else {
						req.Header.Set("Accept", "multipart/mixed")
					}
					w := &slowWriter{hdr: http.Header{}, delay: writeDelay}
					done := make(chan struct{})
					go func() { srv.ServeHTTP(w, req); close(done) }()
					n++
					replay := map[string]any{"transport": kind, "write_delay_us": writeDelay.Microseconds(), "tick_us": tick.Microseconds(), "payloads": payloads, "round": i}
					select {
					case <-done:
					case <-time.After(3 * time.Second):
						replay["goroutines"] = transportGoroutines()
						meta.Direct = append(meta.Direct, gen.DirectFinding{Signature: "streaming-transport-never-returns",
							What:   fmt.Sprintf("%s transport (ticker %v, client writes taking %v): the handler had not returned 3 s after an operation of %d payload(s) ended", kind, tick, writeDelay, payloads),
							Replay: replay})
						cancel()
						return n
					}
					cancel()
					var left []string
					for t := 0; t < 400; t++ {
						if left = transportGoroutines(); len(left) == 0 {
							break
						}
						time.Sleep(5 * time.Millisecond)
					}
					if len(left) > 0 {
						replay["goroutines"] = left
						meta.Direct = append(meta.Direct, gen.DirectFinding{Signature: "streaming-transport-leaves-goroutines",
							What:   fmt.Sprintf("%s transport: %d goroutine(s) of the transport still alive 2 s after the handler returned and the request was cancelled: %v", kind, len(left), left),
							Replay: replay})
						return n
					}
				}
			}
		}
	}
	return n
}
