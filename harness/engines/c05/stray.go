package c05

import (
	"fmt"
	"strings"

	"verifharness/engines/xeng"
	"verifharness/gen"
)

// a Go type that implements the generated Node interface but is no type of the schema: a resolver returning it makes
// the generated interface marshaller panic ("unexpected type"), inside the goroutine of its list element
const StrayFile = `package main

import (
	"reflect"

	"probe/graph"
)

type Stray struct{}

func (Stray) IsNode()             {}
func (Stray) GetID() string       { return "stray" }
func (Stray) GetName() *string    { return nil }
func (Stray) GetLink() *graph.A   { return nil }

func init() { typeOf["Stray"] = reflect.TypeOf(Stray{}) }
`

// strayElements: lists whose first elements make their element goroutine panic inside generated code (a value of a
// type the schema does not know), followed by ordinary elements, under every worker limit: the panics are recovered
// per element, and the response function must still return - every worker slot is given back.
func strayElements(outDir string, meta *gen.Meta) (int, error) {
	cf := &gen.CaseFile{Dir: outDir, Prop: "C05", Kind: "joinpanic", Requires: []string{"Base.Prelude", "Model.JoinPanic", "Corr.Corr_C05"}, Type: "jp_case",
		Checks: []gen.Check{{Label: "corr", Fn: "jp_corr"}, {Label: "mon", Fn: "jp_mon"}, {Label: "monmodel", Fn: "jp_monmodel"}}, Shard: 500}
	var descr []any
	defer func() { _ = meta.AddCaseFile(cf, descr) }()
	cfgs := []xeng.Config{xeng.QuickConfigs[0], xeng.ThoroughConfigs[2], xeng.QuickConfigs[1], xeng.ThoroughConfigs[3]}
	probes, err := xeng.BuildProbes(xeng.ProbeSchema, cfgs, map[string]string{"stray.go": StrayFile})
	if err != nil {
		return 0, err
	}
	n := 0
	for _, p := range probes {
		if p.Built.GenErr != "" || p.Built.BuildErr != "" {
			meta.Direct = append(meta.Direct, gen.DirectFinding{Signature: "probe-does-not-build", What: "probe server with a stray model type failed to build for " + p.Cfg.Name + ": " + p.Built.GenErr + p.Built.BuildErr, Replay: p.Cfg.Name})
			continue
		}
		var cases []xeng.Case
		for _, bad := range []int{1, 2, 3, 8} {
			o := xeng.NewOracle()
			o.Lens["nodes"] = bad + 3
			for i := 0; i < bad; i++ {
				o.Concretes[fmt.Sprintf("nodes.%d", i)] = "Stray"
			}
			for rep := 0; rep < 8; rep++ { // whether the join is passed before the handler ran is up to the scheduler
				cases = append(cases, xeng.Case{ID: len(cases), Query: `query Op { nodes { id name } scalar }`, Oracle: o, TimeoutMs: 2500, CheckLeaks: true})
			}
		}
		res, err := xeng.RunAll(p.Built.Bin, cases)
		if err != nil {
			return n, err
		}
		reported := map[int]bool{}
		for i, r := range res {
			n++
			{
				// for the model of the worker-limit join with panicking closures (Model.JoinPanic)
				ln := cases[i].Oracle.Lens["nodes"]
				limit := workerLimit(p.Cfg.Name)
				if limit == 0 {
					limit = ln // no limit: a slot for every element
				}
				var plan []string
				for k := 0; k < ln; k++ {
					plan = append(plan, gen.Bool(k < ln-3))
				}
				returned := !r.Hang && !r.Crashed && len(r.Responses) > 0
				cf.Add(fmt.Sprintf("{| jp_plan := [%s]; jp_limit := %d%%nat; jp_returned := %s |}", strings.Join(plan, "; "), limit, gen.Bool(returned)))
				descr = append(descr, map[string]any{"config": p.Cfg.Name, "query": cases[i].Query, "oracle": cases[i].Oracle, "hang": r.Hang, "crashed": r.Crashed, "responses": len(r.Responses)})
			}
			if reported[cases[i].Oracle.Lens["nodes"]] {
				continue
			}
			if r.Hang || r.Crashed || len(r.Leaked) > 0 || len(r.Responses) == 0 {
				meta.Direct = append(meta.Direct, gen.DirectFinding{Signature: "response-function-does-not-return-after-element-panics",
					What: fmt.Sprintf("config %s: a list of %d elements whose first %d make their element goroutine panic inside generated code (unexpected type): hang=%v crashed=%v leaked=%v responses=%d",
						p.Cfg.Name, cases[i].Oracle.Lens["nodes"], cases[i].Oracle.Lens["nodes"]-3, r.Hang, r.Crashed, r.Leaked, len(r.Responses)),
					Replay: map[string]any{"config": p.Cfg.Name, "query": cases[i].Query, "oracle": cases[i].Oracle}})
				reported[cases[i].Oracle.Lens["nodes"]] = true
			}
		}
	}
	return n, nil
}
