// Package c05: operations terminate and leave nothing running, even when cancelled mid-flight.  For every
// operation of a corpus (list fan-out, nested lists, @defer) x every cancellation point (before dispatch,
// on entry of the k-th resolver) x consumer behaviour (drain every payload / stop after the first, as a
// single-response transport does) x worker_limit {0,1,2,8}: the response function must return (a hang is
// detected by a generous timeout once every resolver has returned) and, after the request context is
// cancelled, no goroutine with a generated-code or gqlgen frame may be alive.
package c05

import (
	"fmt"
	"strings"

	"verifharness/engines/xeng"
	"verifharness/gen"
)

var corpus = []string{
	`query Op { as { id } }`,
	`query Op { as { kids { id name } } nodes { id } }`,
	`query Op { a { deep { a1 } as { a1 } } items { tags owner { id } } }`,
	`query Op { b { items { name } } us { __typename ... on A { a1 } } }`,
	`query Op { a { a1 ... @defer { name a2 } } }`,
	`query Op { as { id ... @defer(label: "x") { a1 kids { id } } } scalar }`,
	`query Op { a { ... @defer { peer { id ... @defer { name } } } } strict }`,
	`query Op { nodes { id ... on A @defer { as { a1 } } } }`,
	`mutation Op { m1 m3 { kids { id } } }`,
	`query Op { scalar strict }`,
}

type caseDescr struct {
	Query       string   `json:"query"`
	Config      string   `json:"config"`
	WorkerLimit int      `json:"worker_limit"`
	CancelAfter int      `json:"cancel_after"`
	StopAfter   int      `json:"stop_after"`
	Hang        bool     `json:"hang"`
	Leaked      []string `json:"leaked"`
	Payloads    int      `json:"payloads"`
	Resolvers   int      `json:"resolver_calls"`
	Sig         string   `json:"sig,omitempty"`
	Deadline    bool     `json:"ended_by_deadline,omitempty"`
}

func workerLimit(name string) int {
	for _, wl := range []int{8, 2, 1, 0} {
		if strings.Contains(name, fmt.Sprintf("wl%d", wl)) {
			return wl
		}
	}
	return 0
}

func Run(c *gen.Ctx) error {
	meta := &gen.Meta{Property: "C05"}
	cfgs := []xeng.Config{xeng.QuickConfigs[0], xeng.ThoroughConfigs[2], xeng.QuickConfigs[1], xeng.ThoroughConfigs[3]}
	probes, err := xeng.BuildProbes(xeng.ProbeSchema, cfgs, nil)
	if err != nil {
		return err
	}
	for _, p := range probes {
		if p.Built.GenErr != "" || p.Built.BuildErr != "" {
			meta.Direct = append(meta.Direct, gen.DirectFinding{Signature: "probe-does-not-build", What: "probe server failed to build for " + p.Cfg.Name,
				Replay: map[string]any{"generate": p.Built.GenErr, "build": p.Built.BuildErr}})
			meta.Evaluations = 1
			return meta.Write(c.OutDir)
		}
	}
	cf := &gen.CaseFile{Dir: c.OutDir, Prop: "C05", Kind: "join", Requires: []string{"Base.Prelude", "Model.Join", "Corr.Corr_C05"}, Type: "c05_case",
		Checks: []gen.Check{{Label: "corr", Fn: "c05_corr"}, {Label: "mon", Fn: "c05_monitor"}}, Shard: 2000}
	var descr []any
	stats := map[string]int{}
	distinct := map[string]bool{}
	// how many resolver calls does each operation make (uncancelled)?  -> enumerate the cancellation points
	var base []xeng.Case
	for i, q := range corpus {
		base = append(base, xeng.Case{ID: i, Query: q, Oracle: xeng.NewOracle()})
	}
	res0, err := xeng.RunAll(probes[0].Built.Bin, base)
	if err != nil {
		return err
	}
	maxPoints := 6
	if c.Thorough() {
		maxPoints = 1000
	}
	for _, p := range probes {
		wl := workerLimit(p.Cfg.Name)
		var cases []xeng.Case
		type key struct {
			q, cancel, stop int
			deadline        bool
		}
		var keys []key
		for qi, q := range corpus {
			n := len(res0[qi].Log)
			points := []int{0, -1}
			for k := 1; k <= n && len(points) < maxPoints+2; k++ {
				points = append(points, k)
			}
			for _, cancel := range points {
				for _, stop := range []int{0, 1} {
					cases = append(cases, xeng.Case{ID: len(cases), Query: q, Oracle: xeng.NewOracle(), CancelAfter: cancel, StopAfter: stop, TimeoutMs: 1500, CheckLeaks: true})
					keys = append(keys, key{qi, cancel, stop, false})
					// the same point with the context ending by deadline (context.DeadlineExceeded) instead of cancel()
					if cancel != 0 && stop == 0 {
						cases = append(cases, xeng.Case{ID: len(cases), Query: q, Oracle: xeng.NewOracle(), CancelAfter: cancel, StopAfter: stop, TimeoutMs: 1500, CheckLeaks: true, Deadline: true})
						keys = append(keys, key{qi, cancel, stop, true})
					}
				}
			}
		}
		results, err := xeng.RunAll(p.Built.Bin, cases)
		if err != nil {
			return err
		}
		for i, res := range results {
			k := keys[i]
			if res.Crashed {
				meta.Direct = append(meta.Direct, gen.DirectFinding{Signature: "probe-crash", What: "the generated server crashed", Replay: map[string]any{"config": p.Cfg.Name, "query": corpus[k.q], "cancel_after": k.cancel}})
				continue
			}
			groups := strings.Count(corpus[k.q], "@defer")
			sig := ""
			if res.Hang && wl > 0 && k.cancel != 0 {
				sig = "list-join-missing-done-on-failed-acquire"
			}
			if !res.Hang && len(res.Leaked) > 0 && groups > 0 {
				sig = "deferred-group-blocked-on-unbuffered-send"
			}
			cf.Add(fmt.Sprintf("{| cc_limit := %d%%nat; cc_cancel := %s; cc_stop_after := %d%%nat; cc_defer_groups := %d%%nat; cc_hang := %s; cc_leaked := %d%%nat |}",
				wl, gen.Z(int64(k.cancel)), k.stop, groups, gen.Bool(res.Hang), len(res.Leaked)))
			descr = append(descr, caseDescr{corpus[k.q], p.Cfg.Name, wl, k.cancel, k.stop, res.Hang, res.Leaked, len(res.Responses), len(res.Log), sig, k.deadline})
			if res.Hang {
				stats["hang"]++
			}
			if len(res.Leaked) > 0 {
				stats["leaked"]++
			}
			if k.cancel != 0 {
				stats["cancelled_cases"]++
				distinct[fmt.Sprintf("%s|%d|%d|%d|%v", p.Cfg.Name, k.q, k.cancel, k.stop, k.deadline)] = true
				if k.deadline {
					stats["ended_by_deadline"]++
				}
			}
			stats[fmt.Sprintf("wl%d", wl)]++
		}
	}
	if err := meta.AddCaseFile(cf, descr); err != nil {
		return err
	}
	stats["streaming_transport_requests"] = streamingTransports(meta, c.Thorough())
	stats["websocket_endings"] = websocketEndings(meta)
	stats["websocket_overlapping_operations"] = websocketOverlap(meta)
	if ns, err := strayElements(c.OutDir, meta); err != nil {
		return err
	} else {
		stats["lists_with_panicking_element_goroutines"] = ns
	}
	meta.Evaluations = cf.Len()
	meta.Programs = len(probes)
	meta.DistinctNontrivial = len(distinct)
	meta.Rule = "10 corpus operations (list fan-out, nested lists, abstract lists, 4 with @defer incl. nested and inside lists, a mutation) x cancellation points {never, before dispatch, on entry of the k-th resolver call for k = 1..6 (quick) / all k (thorough)} x {cancel(), deadline exceeded} x consumer {drains every payload, stops after the first as a single-response transport does} x probe servers generated from the current templates with worker_limit {0,1,2,8}; a hang is a response function that has not returned 1.5 s after the request was issued (resolvers return promptly when cancelled); a leak is a goroutine with a generated-code or gqlgen frame still alive up to 100 ms after the request context was cancelled. distinct_nontrivial = distinct (config, operation, cancellation point, consumer) with a cancellation. Streaming transports: SSE and multipart/mixed handlers (tickers at 50 us and 1 ms) in front of an operation of 1..3 payloads, written to clients whose writes take 0 / 0.3 / 3 ms: the handler must return within 3 s and no goroutine of the transport may be alive 2 s after the request was cancelled. Websocket connections (both subprotocols, init timeout 25 ms) that stay silent, leave before or after the handshake or after one operation: no goroutine of the transport may be alive 2 s after the connection ended."
	meta.Samples = []any{descr[0], descr[len(descr)/2]}
	meta.Distribution = map[string]any{"outcomes": stats, "operations": len(corpus), "configurations": len(probes)}
	return meta.Write(c.OutDir)
}
