package c20

import (
	"fmt"

	"verifharness/engines/xeng"
)

// FedSchema: entity types covering single and batch (multi) resolvers, several keys per type, nested keys and
// @requires.  Every entity has an `echo` field that the probe's entity resolvers fill with the resolver name and
// the key values they received, so that each element of the result names the representation it was resolved from.
const FedSchema = `directive @entityResolver(multi: Boolean) on OBJECT
directive @goField(forceResolver: Boolean, name: String, omittable: Boolean) on INPUT_FIELD_DEFINITION | FIELD_DEFINITION

type User @key(fields: "id") @key(fields: "email") {
  id: ID!
  email: String!
  echo: String
}

type Org @key(fields: "id") {
  id: ID!
  echo: String
}

type Product @key(fields: "upc") @key(fields: "sku org { id }") {
  upc: String!
  sku: String!
  org: Org!
  echo: String
  weight: Int @external
  shipping: String @requires(fields: "weight")
}

type Item @key(fields: "id") @entityResolver(multi: true) {
  id: ID!
  echo: String
  size: Int @external
  cost: String @requires(fields: "size")
}

type Pair @key(fields: "a") @key(fields: "b") @entityResolver(multi: true) {
  a: ID!
  b: ID!
  echo: String
}

type Author {
  id: ID!
  reputation: Int
}

type Review @key(fields: "author { id }") {
  author: Author
  echo: String
  body: String @requires(fields: "author { reputation }")
}

type Query {
  dummy: String
}
`

const fed2Header = `extend schema @link(url: "https://specs.apollo.dev/federation/v2.3", import: ["@key", "@external", "@requires", "@shareable"])

`

func fedYAML(layout string, workerLimit, version int, extra, fedOpts string) string {
	exec := "exec:\n  filename: graph/generated.go\n  package: graph\n"
	if layout == "follow-schema" {
		exec = "exec:\n  layout: follow-schema\n  dir: graph\n  package: graph\n"
	}
	exec += fmt.Sprintf("  worker_limit: %d\n", workerLimit)
	fed := fmt.Sprintf("federation:\n  filename: graph/federation.go\n  package: graph\n  version: %d\n", version)
	if fedOpts != "" {
		fed += "  options:\n" + fedOpts
	}
	return "schema:\n  - schema.graphqls\n" + exec + fed +
		"model:\n  filename: graph/models_gen.go\n  package: graph\n" +
		"resolver:\n  layout: follow-schema\n  dir: graph\n  package: graph\n  filename_template: \"{name}.resolvers.go\"\n" + extra
}

type FedConfig struct {
	xeng.Config
	Version int
	// BuildOnly: the probe is generated, compiled and vetted, but no representations are sent to it (computed
	// requires hand the required fields to the field's resolver as an argument instead of putting them on the
	// entity, which the Entities model does not describe)
	BuildOnly bool
}

var QuickConfigs = []FedConfig{
	{xeng.Config{Name: "fed2,single-file,wl0", YAML: fedYAML("single-file", 0, 2, "", "")}, 2, false},
	{xeng.Config{Name: "fed1,follow-schema,wl2,funcsyntax", YAML: fedYAML("follow-schema", 2, 1, "use_function_syntax_for_execution_context: true\n", "")}, 1, false},
}

var ThoroughConfigs = append(append([]FedConfig{}, QuickConfigs...),
	// (explicit_requires is not among them: its populators are stubs the user has to write, there is nothing of
	// gqlgen's to observe beyond the call)
	FedConfig{xeng.Config{Name: "fed2,single-file,wl8,funcsyntax", YAML: fedYAML("single-file", 8, 2, "use_function_syntax_for_execution_context: true\n", "")}, 2, false},
	FedConfig{xeng.Config{Name: "fed2,follow-schema,wl0,computed-requires", YAML: fedYAML("follow-schema", 0, 2, "call_argument_directives_with_null: true\n", "    computed_requires: true\n")}, 2, true},
)

// ParsePrelude: what the federation plugin adds at generation time, for the factory's own parse of the schema.
const ParsePrelude = `directive @key(fields: String!, resolvable: Boolean = true) repeatable on OBJECT | INTERFACE
directive @external on FIELD_DEFINITION | OBJECT
directive @requires(fields: String!) on FIELD_DEFINITION
directive @shareable on FIELD_DEFINITION | OBJECT
directive @link(url: String, import: [String]) repeatable on SCHEMA
`

func (c FedConfig) Schema() string {
	if c.Version == 2 {
		return fed2Header + FedSchema
	}
	return FedSchema
}
