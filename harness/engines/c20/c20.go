// Package c20 sends lists of entity representations to federation probe servers generated at check time and
// prints, per request, the representations, the oracle of the user's entity resolvers and the observed
// _entities list, errors and resolver calls as Coq terms for Corr_C20.
package c20

import (
	"encoding/json"
	"fmt"
	"sort"
	"strings"
	"sync"

	"verifharness/engines/xeng"
	"verifharness/gen"
	"verifharness/probe"
)

// entsCoq: the entity table of FedSchema as the federation plugin orders it (resolvers in @key order).
const entsCoq = `[
  {| en_name := "User"; en_multi := false; en_requires := [];
     en_resolvers := [{| rs_name := "FindUserByID"; rs_keys := [{| kf_path := ["id"]; kf_type := KId |}] |};
                      {| rs_name := "FindUserByEmail"; rs_keys := [{| kf_path := ["email"]; kf_type := KString |}] |}] |};
  {| en_name := "Org"; en_multi := false; en_requires := [];
     en_resolvers := [{| rs_name := "FindOrgByID"; rs_keys := [{| kf_path := ["id"]; kf_type := KId |}] |}] |};
  {| en_name := "Product"; en_multi := false; en_requires := [["weight"]];
     en_resolvers := [{| rs_name := "FindProductByUpc"; rs_keys := [{| kf_path := ["upc"]; kf_type := KString |}] |};
                      {| rs_name := "FindProductBySkuAndOrgID"; rs_keys := [{| kf_path := ["sku"]; kf_type := KString |}; {| kf_path := ["org"; "id"]; kf_type := KId |}] |}] |};
  {| en_name := "Item"; en_multi := true; en_requires := [["size"]];
     en_resolvers := [{| rs_name := "FindManyItemByIDs"; rs_keys := [{| kf_path := ["id"]; kf_type := KId |}] |}] |};
  {| en_name := "Pair"; en_multi := true; en_requires := [];
     en_resolvers := [{| rs_name := "FindManyPairByAs"; rs_keys := [{| kf_path := ["a"]; kf_type := KId |}] |};
                      {| rs_name := "FindManyPairByBs"; rs_keys := [{| kf_path := ["b"]; kf_type := KId |}] |}] |};
  {| en_name := "Review"; en_multi := false; en_requires := [["author"; "reputation"]];
     en_resolvers := [{| rs_name := "FindReviewByAuthorID"; rs_keys := [{| kf_path := ["author"; "id"]; kf_type := KId |}] |}] |}
]`

const Query = `query($reps: [_Any!]!) { _entities(representations: $reps) { __typename ... on User { echo } ... on Org { echo } ... on Product { echo weight } ... on Item { echo size } ... on Pair { echo } ... on Review { echo author { reputation } } } }`

// ---- representation generator ----------------------------------------------------------------------------

var strPool = []string{"1", "2", "3", "x@y"}

func keyVal(r *gen.Rand) any {
	switch r.Intn(12) {
	case 0:
		return nil
	case 1:
		return json.Number("7")
	case 2:
		return true
	case 3:
		return map[string]any{"nested": "v"}
	case 4:
		return []any{"l"}
	}
	return gen.Pick(r, strPool)
}

func goodVal(r *gen.Rand) any { return gen.Pick(r, strPool) }

func reqVal(r *gen.Rand, m map[string]any, name string) {
	switch r.Intn(8) {
	case 0:
	case 1:
		m[name] = nil
	case 2:
		m[name] = "heavy"
	case 3:
		m[name] = true
	default:
		m[name] = json.Number(fmt.Sprint(r.Intn(50)))
	}
}

// genRep draws one representation; wild controls how often keys are missing / odd.
func genRep(r *gen.Rand, wild int) map[string]any {
	m := map[string]any{}
	kv := func() any {
		if r.Intn(10) < wild {
			return keyVal(r)
		}
		return goodVal(r)
	}
	t := r.Intn(20)
	switch {
	case t < 4:
		m["__typename"] = "User"
		switch r.Intn(6) {
		case 0:
			m["email"] = kv()
		case 1:
			m["id"] = kv()
			m["email"] = kv()
		case 2:
			if r.Intn(10) < wild {
				break // no key at all
			}
			m["id"] = kv()
		default:
			m["id"] = kv()
		}
	case t < 6:
		m["__typename"] = "Org"
		m["id"] = kv()
	case t < 10:
		m["__typename"] = "Product"
		switch r.Intn(5) {
		case 0, 1:
			m["upc"] = kv()
		case 2:
			m["sku"] = kv()
			m["org"] = map[string]any{"id": kv()}
		case 3:
			m["sku"] = kv()
			switch r.Intn(4) {
			case 0:
				m["org"] = "not-a-map"
			case 1:
				m["org"] = map[string]any{}
			case 2:
				m["org"] = nil
			default:
				m["org"] = map[string]any{"id": kv()}
			}
		default:
			m["upc"] = nil
			m["sku"] = kv()
			m["org"] = map[string]any{"id": kv()}
		}
		reqVal(r, m, "weight")
	case t < 14:
		m["__typename"] = "Item"
		if r.Intn(10) >= wild/3 {
			m["id"] = kv()
		}
		reqVal(r, m, "size")
	case t < 18:
		m["__typename"] = "Pair"
		switch r.Intn(6) {
		case 0:
			m["b"] = kv()
		case 1:
			m["a"] = kv()
			m["b"] = kv()
		case 2:
			m["a"] = nil
			m["b"] = kv()
		default:
			m["a"] = kv()
		}
	case t < 19:
		if r.Bool() {
			m["__typename"] = "Ghost"
			m["id"] = kv()
			break
		}
		// a nested key and a @requires into a sibling sub-field of the same object
		m["__typename"] = "Review"
		switch r.Intn(8) {
		case 0:
			m["author"] = "not-a-map"
		case 1:
			m["author"] = nil
		case 2: // no author at all
		default:
			a := map[string]any{"id": kv()}
			reqVal(r, a, "reputation")
			m["author"] = a
		}
	default:
		switch r.Intn(3) {
		case 0: // missing
		case 1:
			m["__typename"] = json.Number("5")
		default:
			m["__typename"] = nil
		}
		m["id"] = kv()
	}
	return m
}

// candidate echoes of every resolver over the value pool (what a plan can be attached to)
func candidateEchoes() []string {
	vals := append(append([]string{}, strPool...), "7", "true", "null", "")
	var out []string
	for _, v := range vals {
		q := `"` + v + `"`
		out = append(out, "FindUserByID("+q+")", "FindUserByEmail("+q+")", "FindOrgByID("+q+")", "FindProductByUpc("+q+")",
			"FindManyItemByIDs{"+q+"}", "FindManyPairByAs{"+q+"}", "FindManyPairByBs{"+q+"}", "FindReviewByAuthorID("+q+")")
		for _, w := range strPool {
			out = append(out, "FindProductBySkuAndOrgID("+q+`,"`+w+`")`)
		}
	}
	return out
}

// ---- Go -> Coq ---------------------------------------------------------------------------------------------

func jvalCoq(v any) string {
	switch x := v.(type) {
	case nil:
		return "VNull"
	case string:
		return "(VStr " + gen.Str(x) + ")"
	case json.Number:
		return "(VNum " + gen.Str(string(x)) + ")"
	case bool:
		return "(VBool " + gen.Bool(x) + ")"
	case map[string]any:
		return "(VMap " + repCoq(x) + ")"
	case []any:
		var items []string
		for _, e := range x {
			items = append(items, jvalCoq(e))
		}
		return "(VList " + gen.List(items) + ")"
	}
	panic(fmt.Sprintf("jvalCoq: %T", v))
}

func repCoq(m map[string]any) string {
	keys := make([]string, 0, len(m))
	for k := range m {
		keys = append(keys, k)
	}
	sort.Strings(keys)
	var items []string
	for _, k := range keys {
		items = append(items, fmt.Sprintf("(%s, %s)", gen.Str(k), jvalCoq(m[k])))
	}
	return gen.List(items)
}

func repsCoq(reps []map[string]any) string {
	var items []string
	for _, m := range reps {
		tn := "None"
		if s, ok := m["__typename"].(string); ok {
			tn = "(Some " + gen.Str(s) + ")"
		}
		items = append(items, fmt.Sprintf("(%s, %s)", tn, repCoq(m)))
	}
	return gen.List(items)
}

func oracleCoq(o map[string]xeng.FieldPlan) string {
	keys := make([]string, 0, len(o))
	for k := range o {
		keys = append(keys, k)
	}
	sort.Strings(keys)
	var items []string
	for _, k := range keys {
		p := "PValue"
		switch o[k].O {
		case "null":
			p = "PNull"
		case "error":
			p = "(PError " + gen.Str(o[k].Tag) + ")"
		case "panic":
			p = "(PPanic " + gen.Str("boom:"+o[k].Tag) + ")"
		}
		items = append(items, fmt.Sprintf("(%s, %s)", gen.Str(k), p))
	}
	return gen.List(items)
}

// errClass maps an error message of the _entities field to the model's class.
func errClass(msg string) string {
	switch {
	case msg == "__typename must be an existing string":
		return "ENoTypename"
	case strings.HasPrefix(msg, "unknown type"):
		return "EUnknownType"
	case strings.HasPrefix(msg, "finding resolver for Entity"):
		return "ENoResolver"
	case strings.HasSuffix(msg, "is not a string") || strings.HasPrefix(msg, "unmarshalling param") || (strings.HasPrefix(msg, "Field ") && strings.HasSuffix(msg, "undefined in schema.")):
		return "EKeyUnmarshal"
	case strings.HasPrefix(msg, "resolving Entity") && strings.Contains(msg, ": E:"):
		return "(EResolver " + gen.Str(msg[strings.Index(msg, ": E:")+4:]) + ")"
	case strings.HasPrefix(msg, "E:"):
		return "(EResolver " + gen.Str(msg[2:]) + ")"
	case strings.HasPrefix(msg, "P:boom:"):
		return "(EPanic " + gen.Str(msg[2:]) + ")"
	case strings.HasPrefix(msg, "P:runtime error: invalid memory address"):
		return "ENilDeref"
	case strings.HasPrefix(msg, "P:interface conversion"):
		return "ETypeAssert"
	case strings.Contains(msg, "is not an int") || strings.Contains(msg, "strconv.Atoi") || strings.Contains(msg, "populating requires"):
		return "ERequires"
	}
	return "(EResolver " + gen.Str("unclassified: "+sanitize(msg)) + ")"
}

func sanitize(s string) string {
	var sb strings.Builder
	for i := 0; i < len(s) && i < 120; i++ {
		if s[i] >= 0x20 && s[i] <= 0x7e {
			sb.WriteByte(s[i])
		} else {
			sb.WriteByte('?')
		}
	}
	return sb.String()
}

type entJSON struct {
	Typename string       `json:"__typename"`
	Echo     *string      `json:"echo"`
	Weight   *json.Number `json:"weight"`
	Size     *json.Number `json:"size"`
	Author   *struct {
		Reputation *json.Number `json:"reputation"`
	} `json:"author"`
}

func elemsCoq(raw json.RawMessage) (string, error) {
	var top struct {
		Entities []*json.RawMessage `json:"_entities"`
	}
	if err := json.Unmarshal(raw, &top); err != nil {
		return "", err
	}
	var items []string
	for _, e := range top.Entities {
		if e == nil || string(*e) == "null" {
			items = append(items, "ElNull")
			continue
		}
		var x entJSON
		dec := json.NewDecoder(strings.NewReader(string(*e)))
		dec.UseNumber()
		if err := dec.Decode(&x); err != nil {
			return "", err
		}
		echo := "<no echo>"
		if x.Echo != nil {
			echo = *x.Echo
		}
		var reqs []string
		num := func(n *json.Number) string {
			if n == nil {
				return "None"
			}
			return "(Some " + gen.Str(string(*n)) + ")"
		}
		switch x.Typename {
		case "Product":
			reqs = append(reqs, "("+gen.Str("weight")+", "+num(x.Weight)+")")
		case "Item":
			reqs = append(reqs, "("+gen.Str("size")+", "+num(x.Size)+")")
		case "Review":
			var rep *json.Number
			if x.Author != nil {
				rep = x.Author.Reputation
			}
			reqs = append(reqs, "("+gen.Str("author.reputation")+", "+num(rep)+")")
		}
		items = append(items, fmt.Sprintf("(ElEntity %s %s %s)", gen.Str(x.Typename), gen.Str(echo), gen.List(reqs)))
	}
	return gen.List(items), nil
}

type caseDescr struct {
	Config string                    `json:"config"`
	Reps   []map[string]any          `json:"representations"`
	Oracle map[string]xeng.FieldPlan `json:"oracle"`
	Resp   string                    `json:"response"`
	Sig    string                    `json:"sig,omitempty"`
}

func Run(c *gen.Ctx) error {
	r := gen.NewRand(c.Seed)
	meta := &gen.Meta{Property: "C20", Distribution: map[string]any{}}
	cfgs := QuickConfigs
	nCases := 220
	if c.Thorough() {
		cfgs = ThoroughConfigs
		nCases = 1500
	}
	type built struct {
		cfg FedConfig
		b   *probe.Built
	}
	bs := make([]built, len(cfgs))
	var wg sync.WaitGroup
	var berr error
	for i, cfg := range cfgs {
		wg.Add(1)
		go func(i int, cfg FedConfig) {
			defer wg.Done()
			b, err := probe.Build(probe.Spec{Name: cfg.Name, Schema: map[string]string{"schema.graphqls": cfg.Schema()}, Config: cfg.YAML, ParsePrelude: ParsePrelude}, false)
			if err != nil {
				berr = err
			}
			bs[i] = built{cfg, b}
		}(i, cfg)
	}
	wg.Wait()
	if berr != nil {
		return berr
	}
	for _, b := range bs {
		if b.b.Bin == "" {
			meta.Direct = append(meta.Direct, gen.DirectFinding{Signature: "probe-does-not-build", What: "generation or compilation of the federation probe failed for " + b.cfg.Name + ": " + b.b.GenErr + b.b.BuildErr, Replay: b.cfg.Name})
		}
	}
	if len(meta.Direct) > 0 {
		return meta.Write(c.OutDir)
	}
	{
		var run []built
		for _, b := range bs {
			if !b.cfg.BuildOnly {
				run = append(run, b)
			}
		}
		bs = run
	}
	cands := candidateEchoes()
	cf := &gen.CaseFile{Dir: c.OutDir, Prop: "C20", Kind: "ent", Requires: []string{"Base.Prelude", "Model.Entities", "Corr.Corr_C20"}, Type: "c20_case",
		Checks: []gen.Check{{Label: "corr", Fn: "c20_corr"}, {Label: "mon", Fn: "c20_mon"}, {Label: "monmixed", Fn: "c20_monmixed"}, {Label: "monmodel", Fn: "c20_monmodel"}},
		Shard:  300, Preamble: "Definition ents : list entity := " + entsCoq + "."}
	var descr []any
	lens := map[int]int{}
	plans := map[string]int{}
	classes := map[string]int{}
	distinct := map[string]bool{}
	// pinned cases first: the kept finding's shape, a failing member of a batch, a nil entity with requires,
	// duplicates, an empty list
	pinned := []struct {
		reps   []map[string]any
		oracle map[string]xeng.FieldPlan
	}{
		{[]map[string]any{}, nil},
		{[]map[string]any{{"__typename": "Pair", "a": "1"}, {"__typename": "Pair", "b": "2"}}, nil},
		{[]map[string]any{{"__typename": "Pair", "b": "2"}, {"__typename": "User", "id": "1"}, {"__typename": "Pair", "a": "1", "b": "3"}}, nil},
		{[]map[string]any{{"__typename": "Item", "id": "1", "size": json.Number("4")}, {"__typename": "Item", "id": "2"}, {"__typename": "Item", "id": "3", "size": "big"}, {"__typename": "Item", "id": "1"}}, nil},
		{[]map[string]any{{"__typename": "Item", "id": "1"}, {"__typename": "Item", "id": "2"}, {"__typename": "Item", "id": "3"}}, map[string]xeng.FieldPlan{`FindManyItemByIDs{"2"}`: {O: "null"}}},
		{[]map[string]any{{"__typename": "User", "id": "1"}, {"__typename": "User", "id": "2"}, {"__typename": "User", "id": "1"}, {"__typename": "Product", "upc": "1", "weight": json.Number("9")}},
			map[string]xeng.FieldPlan{`FindUserByID("2")`: {O: "panic", Tag: "p"}}},
		{[]map[string]any{{"__typename": "Product", "sku": "1", "org": "not-a-map"}, {"__typename": "Product", "upc": "2"}, {"__typename": "Ghost", "id": "1"}, {"id": "1"}}, map[string]xeng.FieldPlan{`FindProductByUpc("2")`: {O: "null"}}},
		{[]map[string]any{{"__typename": "Item", "id": map[string]any{"x": "y"}}, {"__typename": "Item", "id": "1"}}, nil},
		// a nested key with a @requires into a sibling sub-field: populated, absent, the object missing / no map
		{[]map[string]any{{"__typename": "Review", "author": map[string]any{"id": "1", "reputation": json.Number("11")}}, {"__typename": "User", "id": "1"},
			{"__typename": "Review", "author": map[string]any{"id": "2"}}, {"__typename": "Review", "author": map[string]any{"id": "3", "reputation": "heavy"}}}, nil},
		{[]map[string]any{{"__typename": "Review", "author": "not-a-map"}, {"__typename": "Review"}, {"__typename": "Review", "author": map[string]any{"id": "1", "reputation": json.Number("4")}}},
			map[string]xeng.FieldPlan{`FindReviewByAuthorID("1")`: {O: "null"}}},
	}
	run := func(b built, sess *[]xeng.Case, keep *[]caseDescr, reps []map[string]any, o map[string]xeng.FieldPlan) {
		if o == nil {
			o = map[string]xeng.FieldPlan{}
		}
		orc := xeng.NewOracle()
		orc.Entities = o
		anyReps := make([]any, len(reps))
		for i, m := range reps {
			anyReps[i] = m
		}
		*sess = append(*sess, xeng.Case{ID: len(*sess), Query: Query, Variables: map[string]any{"reps": anyReps}, Oracle: orc})
		*keep = append(*keep, caseDescr{Config: b.cfg.Name, Reps: reps, Oracle: o})
	}
	for bi, b := range bs {
		var cases []xeng.Case
		var keep []caseDescr
		for _, p := range pinned {
			run(b, &cases, &keep, p.reps, p.oracle)
		}
		cr := r.Fork(uint64(10 + bi))
		for k := 0; k < nCases/len(bs); k++ {
			n := cr.Intn(13)
			wild := []int{0, 2, 2, 5}[cr.Intn(4)]
			reps := make([]map[string]any, n)
			for i := range reps {
				if i > 0 && cr.Chance(1, 6) {
					reps[i] = reps[cr.Intn(i)] // duplicate
				} else {
					reps[i] = genRep(cr, wild)
				}
			}
			o := map[string]xeng.FieldPlan{}
			for j := 0; j < cr.Intn(4)*cr.Intn(3); j++ {
				e := gen.Pick(cr, cands)
				switch cr.Intn(4) {
				case 0:
					o[e] = xeng.FieldPlan{O: "error", Tag: fmt.Sprintf("t%d", j)}
				case 1:
					o[e] = xeng.FieldPlan{O: "panic", Tag: fmt.Sprintf("t%d", j)}
				case 2:
					o[e] = xeng.FieldPlan{O: "null"}
				default:
					o[e] = xeng.FieldPlan{Delay: 1 + cr.Intn(6)}
				}
			}
			// completion orders: delays on otherwise plain resolutions
			for j := 0; j < cr.Intn(4); j++ {
				e := gen.Pick(cr, cands)
				if _, ok := o[e]; !ok {
					o[e] = xeng.FieldPlan{Delay: 1 + cr.Intn(8)}
				}
			}
			run(b, &cases, &keep, reps, o)
		}
		results, err := xeng.RunAll(b.b.Bin, cases)
		if err != nil {
			return err
		}
		// a nested key with a @requires into another sub-field of the same object (outside the Entities model, judged
		// directly): the required sub-field must be populated from the same representation as the key
		{
			const q = `query($reps: [_Any!]!) { _entities(representations: $reps) { ... on Review { echo author { id reputation } } } }`
			reps := []any{map[string]any{"__typename": "Review", "author": map[string]any{"id": "u1", "reputation": json.Number("11")}},
				map[string]any{"__typename": "User", "id": "1"},
				map[string]any{"__typename": "Review", "author": map[string]any{"id": "u2", "reputation": json.Number("12")}}}
			nres, err := xeng.RunAll(b.b.Bin, []xeng.Case{{ID: 1, Query: q, Variables: map[string]any{"reps": reps}, Oracle: xeng.NewOracle()}})
			if err != nil {
				return err
			}
			var got struct {
				Data struct {
					Entities []struct {
						Author *struct {
							Reputation *int `json:"reputation"`
						} `json:"author"`
					} `json:"_entities"`
				} `json:"data"`
			}
			raw := ""
			if len(nres[0].Responses) > 0 {
				raw = string(nres[0].Responses[0])
				_ = json.Unmarshal(nres[0].Responses[0], &got)
			}
			ok := len(got.Data.Entities) == 3
			for i, want := range map[int]int{0: 11, 2: 12} {
				ok = ok && got.Data.Entities[i].Author != nil && got.Data.Entities[i].Author.Reputation != nil && *got.Data.Entities[i].Author.Reputation == want
			}
			if !ok {
				meta.Direct = append(meta.Direct, gen.DirectFinding{Signature: "nested-requires-not-populated-from-its-representation",
					What:   fmt.Sprintf("config %s: Review has @key(fields: \"author { id }\") and body @requires(fields: \"author { reputation }\"); representations with author.reputation 11 and 12 at indices 0 and 2 were answered %s (create errors %s)", b.cfg.Name, raw, string(nres[0].CreateErrors)),
					Replay: map[string]any{"config": b.cfg.Name, "query": q, "representations": reps}})
			}
		}
		// several _entities requests at the same time on one executable schema: each must be answered as it is alone
		{
			var batch []xeng.Case
			for q := 0; q < 16; q++ {
				var reps []any
				for i := 0; i < 3+q%5; i++ {
					tn := []string{"Item", "User", "Item"}[(q+i)%3]
					reps = append(reps, map[string]any{"__typename": tn, "id": fmt.Sprintf("r%d-%d", q, i)})
				}
				batch = append(batch, xeng.Case{ID: q, Query: Query, Variables: map[string]any{"reps": reps}, Oracle: xeng.NewOracle()})
			}
			rounds := 60
			if c.Thorough() {
				rounds = 1000
			}
			bres, err := xeng.RunAll(b.b.Bin, []xeng.Case{{ID: 1, Batch: batch, Rounds: rounds}})
			if err != nil {
				return err
			}
			if bres[0].Crashed {
				meta.Direct = append(meta.Direct, gen.DirectFinding{Signature: "probe-crashed-with-requests-in-flight-together",
					What: fmt.Sprintf("config %s: the probe process died while 16 _entities requests were executed at the same time", b.cfg.Name), Replay: b.cfg.Name})
			}
			for k, d := range bres[0].BatchDiffs {
				if k >= 2 {
					break
				}
				got, want := "", ""
				for _, x := range d.Got {
					got += string(x)
				}
				for _, x := range d.Want {
					want += string(x)
				}
				meta.Direct = append(meta.Direct, gen.DirectFinding{Signature: "entities-depend-on-requests-in-flight-beside-them",
					What: fmt.Sprintf("config %s, 16 _entities requests executed at the same time (round %d): the request for %v was answered %.600s (hang: %v); alone it is answered %.600s",
						b.cfg.Name, d.Round, batch[d.Index].Variables["reps"], got, d.Hang, want),
					Replay: map[string]any{"config": b.cfg.Name, "requests": batch, "round": d.Round, "index": d.Index}})
			}
			meta.Notes = append(meta.Notes, fmt.Sprintf("config %s: %d executions of 16 _entities requests at the same time on one executable schema (%d rounds), each compared with its own sequential run", b.cfg.Name, bres[0].BatchRuns, rounds))
		}
		for k, res := range results {
			d := keep[k]
			if res.Crashed || res.Hang || len(res.Responses) == 0 {
				meta.Direct = append(meta.Direct, gen.DirectFinding{Signature: "entities-no-response", What: fmt.Sprintf("no response to an _entities request (crashed=%v hang=%v create errors %s)", res.Crashed, res.Hang, string(res.CreateErrors)), Replay: d})
				continue
			}
			var rj struct {
				Data   json.RawMessage `json:"data"`
				Errors []struct {
					Message string `json:"message"`
				} `json:"errors"`
			}
			if err := json.Unmarshal(res.Responses[0], &rj); err != nil {
				return err
			}
			d.Resp = string(res.Responses[0])
			if len(d.Resp) > 900 {
				d.Resp = d.Resp[:900] + "..."
			}
			list, err := elemsCoq(rj.Data)
			if err != nil {
				meta.Direct = append(meta.Direct, gen.DirectFinding{Signature: "entities-malformed-response", What: err.Error() + ": " + d.Resp, Replay: d})
				continue
			}
			var errs, calls []string
			for _, e := range rj.Errors {
				cl := errClass(e.Message)
				errs = append(errs, cl)
				classes[strings.Fields(strings.Trim(cl, "()"))[0]]++
			}
			for _, l := range res.Log {
				if l[0] == "e" {
					calls = append(calls, gen.Str(l[1]))
				}
			}
			cf.Add(fmt.Sprintf("{| c_ents := ents; c_reps := %s; c_oracle := %s; c_list := %s; c_errs := %s; c_calls := %s |}",
				repsCoq(d.Reps), oracleCoq(d.Oracle), list, gen.List(errs), gen.List(calls)))
			lens[len(d.Reps)]++
			for _, p := range d.Oracle {
				o := p.O
				if o == "" {
					o = "delay-only"
				}
				plans[o]++
			}
			b, _ := json.Marshal(d.Reps)
			distinct[string(b)+oracleCoq(d.Oracle)] = true
			descr = append(descr, d)
		}
	}
	if err := meta.AddCaseFile(cf, descr); err != nil {
		return err
	}
	meta.Distribution["representation_list_lengths"] = lens
	meta.Distribution["oracle_plans"] = plans
	meta.Distribution["observed_error_classes"] = classes
	meta.Distribution["probe_configurations"] = len(bs)
	meta.Programs = len(bs)
	meta.Evaluations = cf.Len()
	meta.DistinctNontrivial = len(distinct)
	meta.Rule = "federation probe servers generated at check time (v2 single-file, v1 follow-schema with function syntax and worker_limit 2; thorough adds explicit/computed requires) for a schema with single resolvers (one key, two keys, nested key, @requires) and batch resolvers (one key with @requires, two keys). Per probe: 8 pinned lists (empty, mixed keys in a batch, failing batch member, nil entity with requires, panicking single resolver between duplicates, non-map nested key, unknown type, missing __typename) + random lists of 0..12 representations (types interleaved, duplicates, keys missing/null/number/bool/object/list, requires values absent/null/int/string/bool) x random oracles (error / panic / nil entity / delay on resolver calls chosen from the candidate call set). distinct_nontrivial = distinct (representations, oracle) pairs."
	if len(descr) > 9 {
		meta.Samples = append(meta.Samples, descr[1], descr[9])
	}
	return meta.Write(c.OutDir)
}
