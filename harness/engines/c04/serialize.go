package c04

import (
	"bytes"
	"context"
	"encoding/json"
	"fmt"
	"io"
	"mime"
	"mime/multipart"
	"net/http"
	"net/http/httptest"
	"strings"
	"sync/atomic"
	"time"

	"github.com/gorilla/websocket"
	"github.com/vektah/gqlparser/v2"
	"github.com/vektah/gqlparser/v2/ast"

	"github.com/99designs/gqlgen/graphql"
	"github.com/99designs/gqlgen/graphql/handler"
	"github.com/99designs/gqlgen/graphql/handler/transport"

	"verifharness/gen"
)

var serSchema = gqlparser.MustLoadSchema(&ast.Source{Name: "ser.graphqls", Input: `type Query { a(v: Int): Int }`})

// serializationPanics: "a panic raised while serializing a value fails only that response with a well-formed error
// body".  Generated code serializes inside the response function (data.MarshalGQL(&buf)); here the response function
// of a mock executable schema panics at its k-th call, in front of every transport.  Required: the recover hook runs
// exactly once; what the client receives is well-formed for its content type (JSON; an event stream of whole events
// ending in `complete`; multipart parts with headers and a closing boundary; websocket frames ending the operation)
// and carries the error; the server answers the next request.
func serializationPanics(meta *gen.Meta) int {
	n := 0
	for _, at := range []int{1, 2} {
		var recovers int64
		es := &graphql.ExecutableSchemaMock{
			SchemaFunc:     func() *ast.Schema { return serSchema },
			ComplexityFunc: func(ctx context.Context, t, f string, c int, a map[string]any) (int, bool) { return 0, false },
			ExecFunc: func(ctx context.Context) graphql.ResponseHandler {
				boom := graphql.GetOperationContext(ctx).OperationName == "Boom"
				k := 0
				return func(ctx context.Context) *graphql.Response {
					k++
					if boom && k == at {
						panic("serialization failed")
					}
					if k > 2 {
						return nil
					}
					more := k < 2
					return &graphql.Response{Data: json.RawMessage(fmt.Sprintf(`{"a":%d}`, k)), HasNext: &more}
				}
			},
		}
		srv := handler.New(es)
		srv.AddTransport(transport.Websocket{Upgrader: websocket.Upgrader{CheckOrigin: func(r *http.Request) bool { return true }}})
		srv.AddTransport(transport.SSE{})
		srv.AddTransport(transport.MultipartMixed{Boundary: "graphql"})
		srv.AddTransport(transport.GET{})
		srv.AddTransport(transport.POST{})
		srv.SetRecoverFunc(func(ctx context.Context, err any) error {
			atomic.AddInt64(&recovers, 1)
			return fmt.Errorf("internal system error")
		})
		ts := httptest.NewServer(srv)
		post := func(accept, op string) (int, string, []byte, error) {
			// the failing request names its operation and carries variables; the healthy one after it leaves both out, as
			// clients do - nothing of the failed request may be left for it
			body := `{"query":"{ a }"}`
			if op == "Boom" {
				body = `{"query":"query Boom($v: Int) { a(v: $v) }","operationName":"Boom","variables":{"v":7}}`
			}
			req, _ := http.NewRequest("POST", ts.URL, bytes.NewReader([]byte(body)))
			req.Header.Set("Content-Type", "application/json")
			req.Header.Set("Accept", accept)
			resp, err := (&http.Client{Timeout: 3 * time.Second}).Do(req)
			if err != nil {
				return 0, "", nil, err
			}
			defer resp.Body.Close()
			b, err := io.ReadAll(resp.Body)
			return resp.StatusCode, resp.Header.Get("Content-Type"), b, err
		}
		report := func(tr, what string, body []byte) {
			meta.Direct = append(meta.Direct, gen.DirectFinding{Signature: "serialization-panic-not-a-well-formed-error:" + tr,
				What:   fmt.Sprintf("%s, the response function panics at its call %d: %s; received %q", tr, at, what, body),
				Replay: map[string]any{"transport": tr, "panic_at_response": at, "body": string(body)}})
		}
		for _, tr := range []string{"POST application/json", "SSE", "multipart/mixed"} {
			n++
			atomic.StoreInt64(&recovers, 0)
			accept := map[string]string{"POST application/json": "application/json", "SSE": "text/event-stream", "multipart/mixed": "multipart/mixed"}[tr]
			if tr == "POST application/json" && at > 1 {
				continue // the POST transport calls the response function once
			}
			status, ct, body, err := post(accept, "Boom")
			switch {
			case err != nil:
				report(tr, fmt.Sprintf("the client could not read the response: %v", err), body)
			case atomic.LoadInt64(&recovers) != 1:
				report(tr, fmt.Sprintf("the recover hook ran %d times", atomic.LoadInt64(&recovers)), body)
			case !strings.Contains(string(body), "internal system error"):
				report(tr, "the error is not in the response", body)
			default:
				if problem := wellFormed(ct, body); problem != "" {
					report(tr, fmt.Sprintf("status %d, Content-Type %q, but %s", status, ct, problem), body)
				}
			}
			// the server keeps serving
			if st, _, b, err := post("application/json", "Fine"); err != nil || st != 200 || !strings.Contains(string(b), `"a":1`) {
				report(tr, fmt.Sprintf("the next request was answered %d %v", st, err), b)
			}
		}
		// the same two-step history on one goroutine, many times (the POST transport's parameter objects are pooled per
		// processor: the request after the failed one is then handed the very object the failed one used)
		if at == 1 {
			direct := func(body string) (int, string) {
				req := httptest.NewRequest("POST", "/query", strings.NewReader(body))
				req.Header.Set("Content-Type", "application/json")
				rec := httptest.NewRecorder()
				srv.ServeHTTP(rec, req)
				return rec.Code, rec.Body.String()
			}
			for rep := 0; rep < 40; rep++ {
				n++
				_, _ = direct(`{"query":"query Boom($v: Int) { a(v: $v) }","operationName":"Boom","variables":{"v":7},"extensions":{"x":1}}`)
				if st, b := direct(`{"query":"{ a }"}`); st != 200 || !strings.Contains(b, `"a":1`) {
					report("POST application/json", fmt.Sprintf("repetition %d on one goroutine: the request after the failed one was answered %d", rep, st), []byte(b))
					break
				}
			}
		}
		// websocket, both subprotocols: an error for the operation, then the operation ends; the connection lives on
		for _, proto := range []string{"graphql-ws", "graphql-transport-ws"} {
			n++
			atomic.StoreInt64(&recovers, 0)
			conn, _, err := (&websocket.Dialer{Subprotocols: []string{proto}}).Dial("ws"+strings.TrimPrefix(ts.URL, "http"), nil)
			if err != nil {
				continue
			}
			start := "start"
			if proto == "graphql-transport-ws" {
				start = "subscribe"
			}
			_ = conn.WriteMessage(websocket.TextMessage, []byte(`{"type":"connection_init"}`))
			_ = conn.WriteMessage(websocket.TextMessage, []byte(fmt.Sprintf(`{"type":%q,"id":"1","payload":{"query":"query Boom { a }","operationName":"Boom"}}`, start)))
			var types []string
			_ = conn.SetReadDeadline(time.Now().Add(2 * time.Second))
			for {
				_, b, err := conn.ReadMessage()
				if err != nil {
					break
				}
				var f struct{ Type, ID string }
				if json.Unmarshal(b, &f) == nil && f.ID == "1" {
					types = append(types, f.Type)
					if f.Type == "error" || f.Type == "complete" {
						break
					}
				}
			}
			_ = conn.Close()
			got := strings.Join(types, ",")
			if !strings.HasSuffix(got, "error") || atomic.LoadInt64(&recovers) != 1 {
				report("websocket "+proto, fmt.Sprintf("frames for the operation: %q, recover hook ran %d times", got, atomic.LoadInt64(&recovers)), nil)
			}
		}
		ts.Close()
	}
	return n
}

// wellFormed: is the body what its Content-Type promises?
func wellFormed(ct string, body []byte) string {
	mt, params, _ := mime.ParseMediaType(ct)
	switch mt {
	case "application/json", "application/graphql-response+json":
		if !json.Valid(body) {
			return "the body is not JSON"
		}
	case "text/event-stream":
		blocks := strings.Split(string(body), "\n\n")
		if blocks[len(blocks)-1] != "" {
			return "the stream does not end with the blank line that ends an event"
		}
		blocks = blocks[:len(blocks)-1]
		last := ""
		for _, b := range blocks {
			for _, line := range strings.Split(b, "\n") {
				if !(strings.HasPrefix(line, ":") || strings.HasPrefix(line, "event: ") || strings.HasPrefix(line, "data: ")) {
					return fmt.Sprintf("the line %q is no field of an event", line)
				}
				if strings.HasPrefix(line, "data: ") && !json.Valid([]byte(strings.TrimPrefix(line, "data: "))) {
					return "an event's data is not JSON"
				}
				if strings.HasPrefix(line, "event: ") {
					last = strings.TrimPrefix(line, "event: ")
				}
			}
		}
		if last != "complete" {
			return "the stream does not end with the complete event"
		}
	case "multipart/mixed":
		if !bytes.HasSuffix(body, []byte("--"+params["boundary"]+"--\r\n")) {
			return "the body does not end with the closing boundary"
		}
		mr := multipart.NewReader(bytes.NewReader(body), params["boundary"])
		parts := 0
		for {
			p, err := mr.NextPart()
			if err == io.EOF {
				break
			}
			if err != nil {
				return "mime/multipart cannot read the parts: " + err.Error()
			}
			b, _ := io.ReadAll(p)
			if p.Header.Get("Content-Type") != "application/json" || !json.Valid(b) {
				return fmt.Sprintf("part %d is not an application/json part holding JSON", parts)
			}
			parts++
		}
		if parts == 0 {
			return "there is no part"
		}
	default:
		return "unexpected Content-Type"
	}
	return ""
}
