package c04

import (
	"encoding/json"
	"fmt"
	"sort"

	"verifharness/engines/c05"
	"verifharness/engines/xeng"
	"verifharness/gen"
)

// strayElementFaults: user code hands a list a value of a Go type the schema does not know; the generated interface
// marshaller panics ("unexpected type") inside the goroutine of that element.  Only that position fails: the element
// is null with one error at its path, the other elements keep their values, the answer does not depend on the
// schedule (every case is run several times), and the process keeps serving.
func strayElementFaults(meta *gen.Meta) (int, error) {
	cfgs := []xeng.Config{xeng.QuickConfigs[0], xeng.ThoroughConfigs[2], xeng.QuickConfigs[1], xeng.ThoroughConfigs[3]}
	probes, err := xeng.BuildProbes(xeng.ProbeSchema, cfgs, map[string]string{"stray.go": c05.StrayFile})
	if err != nil {
		return 0, err
	}
	n := 0
	for _, p := range probes {
		if p.Built.GenErr != "" || p.Built.BuildErr != "" {
			continue // reported by C05's use of the same probes
		}
		for _, bad := range [][]int{{0}, {1}, {0, 2}, {0, 1, 2}} {
			o := xeng.NewOracle()
			o.Lens["nodes"] = 4
			for _, i := range bad {
				o.Concretes[fmt.Sprintf("nodes.%d", i)] = "Stray"
			}
			var cases []xeng.Case
			for k := 0; k < 12; k++ {
				cases = append(cases, xeng.Case{ID: k, Query: `query Op { nodes { id } scalar }`, Oracle: o, TimeoutMs: 2500})
			}
			res, err := xeng.RunAll(p.Built.Bin, cases)
			if err != nil {
				return n, err
			}
			for k, r := range res {
				n++
				problem := ""
				var resp struct {
					Data struct {
						Nodes  []*struct{ ID string } `json:"nodes"`
						Scalar *string                `json:"scalar"`
					} `json:"data"`
					Errors []struct {
						Message string `json:"message"`
						Path    []any  `json:"path"`
					} `json:"errors"`
				}
				switch {
				case r.Crashed:
					problem = "the process died"
				case r.Hang:
					problem = "the response function did not return"
				case len(r.Responses) != 1 || json.Unmarshal(r.Responses[0], &resp) != nil:
					problem = fmt.Sprintf("%d responses", len(r.Responses))
				default:
					if len(resp.Data.Nodes) != 4 || resp.Data.Scalar == nil {
						problem = "positions outside the failed elements lost their value"
					}
					isBad := map[int]bool{}
					for _, i := range bad {
						isBad[i] = true
					}
					for i, e := range resp.Data.Nodes {
						if isBad[i] != (e == nil) {
							problem = fmt.Sprintf("element %d is null=%v", i, e == nil)
						}
					}
					var paths []string
					for _, e := range resp.Errors {
						paths = append(paths, fmt.Sprint(e.Path))
					}
					sort.Strings(paths)
					var want []string
					for _, i := range bad {
						want = append(want, fmt.Sprintf("[nodes %d]", i))
					}
					if fmt.Sprint(paths) != fmt.Sprint(want) {
						problem = fmt.Sprintf("errors at %v, expected one at each of %v", paths, want)
					}
					if r.Recovers != len(bad) {
						problem = fmt.Sprintf("the recover hook ran %d times for %d panics", r.Recovers, len(bad))
					}
				}
				if problem != "" {
					body := ""
					if len(r.Responses) > 0 {
						body = string(r.Responses[0])
					}
					meta.Direct = append(meta.Direct, gen.DirectFinding{Signature: "element-panic-not-contained",
						What:   fmt.Sprintf("config %s: nodes is a list of 4 whose elements %v are of a Go type the schema does not know (the generated marshaller panics in the element's goroutine), run %d of 12: %s; response %s", p.Cfg.Name, bad, k, problem, body),
						Replay: map[string]any{"config": p.Cfg.Name, "query": cases[k].Query, "oracle": o, "run": k}})
					break
				}
			}
		}
	}
	return n, nil
}
