package c04

import (
	"encoding/json"
	"fmt"
	"strings"

	"verifharness/engines/c05"
	"verifharness/engines/xeng"
	"verifharness/gen"
)

// strayElementFaults: user code hands a list a value of a Go type the schema does not know; the generated interface
// marshaller panics ("unexpected type") inside the goroutine of that element.  Only that position fails: the element
// is null with one error at its path, the other elements keep their values, the answer does not depend on the
// schedule (every case is run several times), and the process keeps serving.
func strayElementFaults(meta *gen.Meta) (int, error) {
	cfgs := []xeng.Config{xeng.QuickConfigs[0], xeng.ThoroughConfigs[2], xeng.QuickConfigs[1], xeng.ThoroughConfigs[3]}
	probes, err := xeng.BuildProbes(xeng.ProbeSchema, cfgs, map[string]string{"stray.go": c05.StrayFile})
	if err != nil {
		return 0, err
	}
	n := 0
	cf := &gen.CaseFile{Dir: outDir, Prop: "C04", Kind: "elems", Requires: []string{"Base.Prelude", "Model.ElemPanic", "Corr.Corr_Elems"}, Type: "elem_case",
		Checks: []gen.Check{{Label: "corr", Fn: "elem_corr"}, {Label: "c04", Fn: "elem_mon"}, {Label: "monmodel", Fn: "elem_monmodel"}}, Shard: 400}
	var descr []any
	defer func() { _ = meta.AddCaseFile(cf, descr) }()
	for _, p := range probes {
		if p.Built.GenErr != "" || p.Built.BuildErr != "" {
			continue // reported by C05's use of the same probes
		}
		for _, bad := range [][]int{{0}, {1}, {0, 2}, {0, 1, 2}} {
			o := xeng.NewOracle()
			o.Lens["nodes"] = 4
			for _, i := range bad {
				o.Concretes[fmt.Sprintf("nodes.%d", i)] = "Stray"
			}
			var cases []xeng.Case
			for k := 0; k < 12; k++ {
				cases = append(cases, xeng.Case{ID: k, Query: `query Op { nodes { id } scalar }`, Oracle: o, TimeoutMs: 2500})
			}
			res, err := xeng.RunAll(p.Built.Bin, cases)
			if err != nil {
				return n, err
			}
			for k, r := range res {
				n++
				problem := ""
				var resp struct {
					Data struct {
						Nodes  []*struct{ ID string } `json:"nodes"`
						Scalar *string                `json:"scalar"`
					} `json:"data"`
					Errors []struct {
						Message string `json:"message"`
						Path    []any  `json:"path"`
					} `json:"errors"`
				}
				switch {
				case r.Crashed:
					problem = "the process died"
				case r.Hang:
					problem = "the response function did not return"
				case len(r.Responses) != 1 || json.Unmarshal(r.Responses[0], &resp) != nil:
					problem = fmt.Sprintf("%d responses", len(r.Responses))
				default:
					// what can be said per element goes to the model and the monitor in Coq (Corr_Elems); the rest is
					// judged here: the list is there in full, its sibling kept its value, every error is an element's
					errs := make([]int, 4)
					for _, e := range resp.Errors {
						i := -1
						if len(e.Path) == 2 && e.Path[0] == "nodes" {
							if f, ok := e.Path[1].(float64); ok && f >= 0 && f < 4 {
								i = int(f)
							}
						}
						if i < 0 {
							problem = fmt.Sprintf("an error at %v, which is no element of the list", e.Path)
							break
						}
						errs[i]++
					}
					if len(resp.Data.Nodes) != 4 || resp.Data.Scalar == nil {
						problem = "positions outside the failed elements lost their value"
					}
					if problem == "" {
						isBad := map[int]bool{}
						for _, i := range bad {
							isBad[i] = true
						}
						var plan, nulls, es []string
						for i, e := range resp.Data.Nodes {
							plan = append(plan, gen.Bool(isBad[i]))
							nulls = append(nulls, gen.Bool(e == nil))
							es = append(es, fmt.Sprint(errs[i]))
						}
						cf.Add(fmt.Sprintf("{| ec_plan := [%s]; ec_nulls := [%s]; ec_errs := [%s]%%nat; ec_recovers := %d%%nat |}",
							strings.Join(plan, "; "), strings.Join(nulls, "; "), strings.Join(es, "; "), r.Recovers))
						body := ""
						if len(r.Responses) > 0 {
							body = string(r.Responses[0])
						}
						descr = append(descr, map[string]any{"config": p.Cfg.Name, "query": cases[k].Query, "oracle": o, "run": k, "panicking_elements": bad, "response": body, "recovers": r.Recovers})
					}
				}
				if problem != "" {
					body := ""
					if len(r.Responses) > 0 {
						body = string(r.Responses[0])
					}
					meta.Direct = append(meta.Direct, gen.DirectFinding{Signature: "element-panic-not-contained",
						What:   fmt.Sprintf("config %s: nodes is a list of 4 whose elements %v are of a Go type the schema does not know (the generated marshaller panics in the element's goroutine), run %d of 12: %s; response %s", p.Cfg.Name, bad, k, problem, body),
						Replay: map[string]any{"config": p.Cfg.Name, "query": cases[k].Query, "oracle": o, "run": k}})
					break
				}
			}
		}
	}
	return n, nil
}
