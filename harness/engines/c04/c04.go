// Package c04: user-code failures are contained.  The exhaustive single-fault enumeration over the operation
// corpus is the C01 engine in single-fault mode (compared with the model); this file adds the fault sites the
// outcome-tree model does not carry - a panic or error while an ARGUMENT is unmarshalled (custom scalar), and
// faults inside one EVENT of a subscription - observed directly: one error at the field's path, the recover
// hook once per panic, the resolver not invoked, the other events untouched.
package c04

import (
	"encoding/json"
	"fmt"
	"strings"

	"verifharness/engines/c01"
	"verifharness/engines/c13"
	"verifharness/engines/xeng"
	"verifharness/gen"
)

type respJSON struct {
	Data   json.RawMessage `json:"data"`
	Errors []struct {
		Message string `json:"message"`
		Path    []any  `json:"path"`
	} `json:"errors"`
}

var outDir string

func extra(prop string, probes []xeng.Probe, meta *gen.Meta) error {
	// faults inside deferred groups: null propagation stops at the group's object, one error per failure
	if err := c13.SingleFaultCases(outDir, prop, "c04", probes, meta); err != nil {
		return err
	}
	if prop != "C04" {
		return nil
	}
	if nst, err := strayElementFaults(meta); err != nil {
		return err
	} else {
		meta.Notes = append(meta.Notes, fmt.Sprintf("%d executions of a list of 4 in which 1..3 elements are of a Go type the schema does not know (panic inside generated code, in the element's goroutine), each case 12 times over, worker_limit 0/1/2/8: only those elements null, one error each at its path, recover hook once per panic, no crash", nst))
	}
	nser := serializationPanics(meta)
	meta.Notes = append(meta.Notes, fmt.Sprintf("%d observations of a panic inside the response function (where generated code serializes) in front of the POST, SSE, multipart/mixed and websocket transports: recover hook once, a body that is well-formed for its content type and carries the error, the server keeps serving", nser))
	type expect struct {
		name     string
		c        xeng.Case
		data     string // expected data of the single response ("" = not checked)
		nerr     int
		recovers int
		noCall   string // a resolver path that must not be invoked
	}
	argCases := []expect{
		{name: "scalar unmarshaler panics (literal)", c: xeng.Case{Query: `{ frag(v: "boom") scalar }`}, data: `{"frag":null,"scalar":"scalar"}`, nerr: 1, recovers: 1, noCall: "frag"},
		{name: "scalar unmarshaler returns an error (literal)", c: xeng.Case{Query: `{ frag(v: "bad") scalar }`}, data: `{"frag":null,"scalar":"scalar"}`, nerr: 1, recovers: 0, noCall: "frag"},
		{name: "scalar unmarshaler panics inside a list argument", c: xeng.Case{Query: `{ fragList(vs: ["ok", "boom"]) scalar }`}, data: `{"fragList":null,"scalar":"scalar"}`, nerr: 1, recovers: 1, noCall: "fragList"},
		{name: "scalar unmarshaler panics (variable)", c: xeng.Case{Query: `query($v: Fragile) { frag(v: $v) scalar a { a1 } }`, Variables: map[string]any{"v": "boom"}}, data: `{"frag":null,"scalar":"scalar","a":{"a1":"a1"}}`, nerr: 1, recovers: 1, noCall: "frag"},
		{name: "scalar unmarshaler succeeds", c: xeng.Case{Query: `{ frag(v: "fine") scalar }`}, data: `{"frag":"frag","scalar":"scalar"}`, nerr: 0, recovers: 0},
	}
	n := 0
	for _, p := range probes {
		var cases []xeng.Case
		for i, e := range argCases {
			c := e.c
			c.ID = i
			c.Oracle = xeng.NewOracle()
			cases = append(cases, c)
		}
		// a fault inside the second of three subscription events, as an error and as a panic
		for k, kind := range []string{"error", "panic"} {
			o := xeng.NewOracle()
			o.Fields["tickA"] = xeng.FieldPlan{Emit: 3}
			o.Fields["tickA.a1"] = xeng.FieldPlan{O: kind, Tag: "ev", Nth: 2}
			cases = append(cases, xeng.Case{ID: len(argCases) + k, Query: `subscription { tickA { a1 name } }`, Oracle: o, TimeoutMs: 3000})
		}
		results, err := xeng.RunAll(p.Built.Bin, cases)
		if err != nil {
			return err
		}
		report := func(sig, what string, c xeng.Case, res xeng.Result) {
			var rs []string
			for _, r := range res.Responses {
				rs = append(rs, string(r))
			}
			meta.Direct = append(meta.Direct, gen.DirectFinding{Signature: sig, What: what,
				Replay: map[string]any{"config": p.Cfg.Name, "query": c.Query, "variables": c.Variables, "oracle": c.Oracle, "responses": rs, "recovers": res.Recovers, "log": res.Log}})
		}
		for i, e := range argCases {
			res := results[i]
			n++
			if res.Crashed || res.Hang || len(res.Responses) != 1 {
				report("argument-fault-not-contained", e.name+": the probe crashed, hung or did not answer once", cases[i], res)
				continue
			}
			var rj respJSON
			_ = json.Unmarshal(res.Responses[0], &rj)
			var problems []string
			if e.data != "" && string(rj.Data) != e.data {
				problems = append(problems, "data "+string(rj.Data)+" (expected "+e.data+")")
			}
			if len(rj.Errors) != e.nerr {
				problems = append(problems, fmt.Sprintf("%d errors (expected %d)", len(rj.Errors), e.nerr))
			}
			for _, er := range rj.Errors {
				if len(er.Path) == 0 || fmt.Sprint(er.Path[0]) != e.noCall {
					problems = append(problems, fmt.Sprintf("error path %v does not start at the field", er.Path))
				}
			}
			if res.Recovers != e.recovers {
				problems = append(problems, fmt.Sprintf("recover hook ran %d times (expected %d)", res.Recovers, e.recovers))
			}
			for _, l := range res.Log {
				if e.noCall != "" && l[0] == "r" && l[1] == e.noCall {
					problems = append(problems, "the resolver was invoked although its argument could not be unmarshalled")
				}
			}
			if len(problems) > 0 {
				report("argument-fault-not-contained", e.name+": "+strings.Join(problems, "; "), cases[i], res)
			}
		}
		// an executable directive failing at fields bound to plain struct members (no resolver, no schema directive):
		// the position fails alone, one error at its path, the recover hook once per panic
		type markCase struct {
			name, query, at, kind, data, errPath string
			recovers                             int
		}
		markCases := []markCase{
			{"directive panics at a nullable struct-member field", `{ a { id inl @mark name } scalar }`, "a.inl", "panic", `{"a":{"id":"id","inl":null,"name":"name"},"scalar":"scalar"}`, "a.inl", 1},
			{"directive fails at a nullable struct-member field", `{ a { id inl @mark name } scalar }`, "a.inl", "error", `{"a":{"id":"id","inl":null,"name":"name"},"scalar":"scalar"}`, "a.inl", 0},
			{"directive panics at a non-null struct-member field", `{ a { id inlStrict @mark name } scalar }`, "a.inlStrict", "panic", `{"a":null,"scalar":"scalar"}`, "a.inlStrict", 1},
			{"directive panics at a struct-member field of a list element", `{ as { id inl @mark } scalar }`, "as.1.inl", "panic", `{"as":[{"id":"id","inl":"inl"},{"id":"id","inl":null}],"scalar":"scalar"}`, "as.1.inl", 1},
			{"directive panics at the id of a list element (non-null struct member)", `{ as { id @mark inl } scalar }`, "as.0.id", "panic", "", "as.0.id", 1},
		}
		var mcases []xeng.Case
		for i, m := range markCases {
			o := xeng.NewOracle()
			o.Guards[m.at] = xeng.FieldPlan{O: m.kind, Tag: "mark"}
			mcases = append(mcases, xeng.Case{ID: i, Query: m.query, Oracle: o, TimeoutMs: 3000})
		}
		mres, err := xeng.RunAll(p.Built.Bin, mcases)
		if err != nil {
			return err
		}
		for i, m := range markCases {
			res := mres[i]
			n++
			if res.Crashed || res.Hang || len(res.Responses) != 1 {
				report("directive-fault-at-struct-member-not-contained", m.name+": the probe crashed, hung or did not answer once", mcases[i], res)
				continue
			}
			var rj respJSON
			_ = json.Unmarshal(res.Responses[0], &rj)
			var problems []string
			if m.data != "" && string(rj.Data) != m.data {
				problems = append(problems, "data "+string(rj.Data)+" (expected "+m.data+")")
			}
			if len(rj.Errors) != 1 {
				problems = append(problems, fmt.Sprintf("%d errors (expected 1)", len(rj.Errors)))
			}
			for _, er := range rj.Errors {
				var segs []string
				for _, x := range er.Path {
					segs = append(segs, fmt.Sprint(x))
				}
				if strings.Join(segs, ".") != m.errPath {
					problems = append(problems, fmt.Sprintf("error path %v (expected %s)", er.Path, m.errPath))
				}
			}
			if res.Recovers != m.recovers {
				problems = append(problems, fmt.Sprintf("recover hook ran %d times (expected %d)", res.Recovers, m.recovers))
			}
			if len(problems) > 0 {
				report("directive-fault-at-struct-member-not-contained", m.name+": "+strings.Join(problems, "; "), mcases[i], res)
			}
		}
		for k, kind := range []string{"error", "panic"} {
			i := len(argCases) + k
			res := results[i]
			n++
			if res.Crashed || res.Hang || len(res.Responses) != 3 {
				report("subscription-event-fault-not-contained", fmt.Sprintf("a resolver %s in the second of three subscription events: %d responses (crashed=%v hang=%v)", kind, len(res.Responses), res.Crashed, res.Hang), cases[i], res)
				continue
			}
			var problems []string
			for j, raw := range res.Responses {
				var rj respJSON
				_ = json.Unmarshal(raw, &rj)
				want := 0
				if j == 1 {
					want = 1
				}
				if len(rj.Errors) != want {
					problems = append(problems, fmt.Sprintf("event %d carries %d errors (expected %d)", j+1, len(rj.Errors), want))
				}
				for _, er := range rj.Errors {
					if !strings.HasSuffix(er.Message, fmt.Sprintf("#%d", j+1)) {
						problems = append(problems, fmt.Sprintf("event %d carries an error of another event: %s", j+1, er.Message))
					}
				}
				if j != 1 && !strings.Contains(string(rj.Data), `"a1":"a1"`) {
					problems = append(problems, fmt.Sprintf("event %d lost its data: %s", j+1, string(rj.Data)))
				}
			}
			wantRec := 0
			if kind == "panic" {
				wantRec = 1
			}
			if res.Recovers != wantRec {
				problems = append(problems, fmt.Sprintf("recover hook ran %d times (expected %d)", res.Recovers, wantRec))
			}
			if len(problems) > 0 {
				report("subscription-event-fault-not-contained", "a resolver "+kind+" in the second of three subscription events: "+strings.Join(problems, "; "), cases[i], res)
			}
		}
	}
	meta.Notes = append(meta.Notes, fmt.Sprintf("%d direct observations of faults at argument unmarshalers (custom scalar: error, panic, inside a list, through a variable) and inside one event of a three-event subscription, on every probe configuration", n))
	return nil
}

func Run(c *gen.Ctx) error {
	cfgs := []xeng.Config{xeng.QuickConfigs[0], xeng.QuickConfigs[1], xeng.ThoroughConfigs[2]}
	nops, perOp := 12, 2
	if c.Thorough() {
		cfgs = xeng.ThoroughConfigs
		nops, perOp = 150, 4
	}
	outDir = c.OutDir
	c01.ExtraChecks = extra
	defer func() { c01.ExtraChecks = nil }()
	return c01.RunFull(c, "C04", cfgs, nops, perOp, true, false)
}
