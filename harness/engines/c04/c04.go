// Package c04: user-code failures are contained.  Enumerates EVERY single fault point (each resolver call
// and each directive call taken from the invocation log) x {error, panic} for every operation, plus random
// multi-fault sets, on probe servers with worker_limit 0, 1 and 2; the probe process must survive
// (a crash is a direct finding), the recover hook must be called once per panic, and the response must
// be the specified one.
package c04

import (
	"verifharness/engines/c01"
	"verifharness/engines/xeng"
	"verifharness/gen"
)

func Run(c *gen.Ctx) error {
	cfgs := []xeng.Config{xeng.QuickConfigs[0], xeng.QuickConfigs[1], xeng.ThoroughConfigs[2]}
	nops, perOp := 12, 2
	if c.Thorough() {
		cfgs = xeng.ThoroughConfigs
		nops, perOp = 150, 4
	}
	return c01.RunWith(c, "C04", cfgs, nops, perOp, true)
}
