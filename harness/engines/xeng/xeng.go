// Package xeng is the shared machinery of the generated-executor properties (C01, C04, C05, C06, C13):
// the probe schema and configuration matrix, Go->Coq printers for schemas / validated operations /
// oracles / responses, and the probe runner.
package xeng

import (
	"bytes"
	"encoding/json"
	"fmt"
	"sort"
	"strconv"
	"strings"
	"sync"

	"github.com/vektah/gqlparser/v2"
	"github.com/vektah/gqlparser/v2/ast"

	"verifharness/gen"
	"verifharness/probe"
)

const ProbeSchema = `directive @guard(tag: String) on FIELD_DEFINITION
directive @mark(tag: String) on FIELD
directive @goField(forceResolver: Boolean, name: String, omittable: Boolean) on INPUT_FIELD_DEFINITION | FIELD_DEFINITION

interface Node { id: ID! name: String link: A }
interface Named { name: String }

type A implements Node & Named {
  id: ID!
  name: String @goField(forceResolver: true)
  a1: String! @goField(forceResolver: true)
  a2: Int @goField(forceResolver: true)
  kids: [Node!]! @goField(forceResolver: true)
  peer: Node @goField(forceResolver: true)
  as: [A] @goField(forceResolver: true)
  u: U @goField(forceResolver: true)
  deep: [[A!]]! @goField(forceResolver: true)
  strictPeer: A! @goField(forceResolver: true)
  guarded: String @guard(tag: "g") @goField(forceResolver: true)
  link: A @goField(forceResolver: true)
  inl: String
  inlStrict: String!
}

type B implements Node {
  id: ID!
  name: String @goField(forceResolver: true)
  b1: String @goField(forceResolver: true)
  link: A @goField(forceResolver: true)
  other: A! @goField(forceResolver: true)
  items: [Item!] @goField(forceResolver: true)
}

union U = A | B | Item

type Solo {
  only: String! @goField(forceResolver: true)
  plain: String
}

type Item {
  name: String! @goField(forceResolver: true)
  owner: Node @goField(forceResolver: true)
  tags: [String!]! @goField(forceResolver: true)
  score: Int @guard(tag: "s") @goField(forceResolver: true)
}

type Query {
  node: Node
  a: A
  b: B!
  as: [A!]!
  nodes: [Node]!
  u: U
  us: [U!]
  items: [Item]
  named: Named
  scalar: String
  strict: String!
  guardedRoot: A @guard(tag: "r")
  solo: Solo
}

type Mutation {
  m1: Int
  m2: Int!
  m3: A
  m4: B
}

type Subscription {
  tick: Int
  tickA: A
}

scalar Fragile

extend type Query {
  frag(v: Fragile): String
  fragList(vs: [Fragile!]): String
}
`

// Config is one point of the generator-configuration matrix.
type Config struct {
	Name string
	YAML string
}

func yaml(layout string, workerLimit int, extra string) string {
	exec := "exec:\n  filename: graph/generated.go\n  package: graph\n"
	if layout == "follow-schema" {
		exec = "exec:\n  layout: follow-schema\n  dir: graph\n  package: graph\n"
	}
	exec += fmt.Sprintf("  worker_limit: %d\n", workerLimit)
	return "schema:\n  - \"*.graphqls\"\n" + exec +
		"model:\n  filename: graph/models_gen.go\n  package: graph\n" +
		"resolver:\n  layout: follow-schema\n  dir: graph\n  package: graph\n  filename_template: \"{name}.resolvers.go\"\n" +
		"models:\n  Fragile:\n    model: probe/graph.Fragile\n" + extra
}

var QuickConfigs = []Config{
	{"single-file,wl0", yaml("single-file", 0, "")},
	{"follow-schema,wl2,funcsyntax", yaml("follow-schema", 2, "use_function_syntax_for_execution_context: true\n")},
}

var ThoroughConfigs = append(append([]Config{}, QuickConfigs...),
	Config{"single-file,wl1", yaml("single-file", 1, "")},
	Config{"single-file,wl8,funcsyntax", yaml("single-file", 8, "use_function_syntax_for_execution_context: true\n")},
	Config{"follow-schema,wl0,slice-elem-nopointers", yaml("follow-schema", 0, "omit_slice_element_pointers: true\n")},
	Config{"single-file,wl2,resolvers-return-pointers-off", yaml("single-file", 2, "resolvers_always_return_pointers: false\n")},
	Config{"single-file,wl0,struct-fields-pointers-off", yaml("single-file", 0, "struct_fields_always_pointers: false\n")},
	Config{"follow-schema,wl8,omit-complexity", yaml("follow-schema", 8, "omit_complexity: true\n")},
)

var Schema = gqlparser.MustLoadSchema(&ast.Source{Name: "schema.graphqls", Input: ProbeSchema})

// ---- schema -> Coq ----------------------------------------------------------------------------------

func typeCoq(t *ast.Type) string {
	if t.Elem != nil {
		return fmt.Sprintf("(TList %s %s)", typeCoq(t.Elem), gen.Bool(t.NonNull))
	}
	return fmt.Sprintf("(TNamed %s %s)", gen.Str(t.NamedType), gen.Bool(t.NonNull))
}

func isResolver(s *ast.Schema, def *ast.Definition, f *ast.FieldDefinition) bool {
	if def == s.Query || def == s.Mutation || def == s.Subscription || len(f.Arguments) > 0 {
		return true
	}
	if d := f.Directives.ForName("goField"); d != nil {
		if a := d.Arguments.ForName("forceResolver"); a != nil && a.Value.Raw == "true" {
			return true
		}
	}
	return false
}

func SchemaCoq(s *ast.Schema) string {
	var names []string
	for n, d := range s.Types {
		if strings.HasPrefix(n, "__") {
			continue
		}
		switch d.Kind {
		case ast.Object, ast.Interface, ast.Union, ast.Scalar, ast.Enum:
			names = append(names, n)
		}
	}
	sort.Strings(names)
	var items []string
	for _, n := range names {
		d := s.Types[n]
		kind := "KLeafString"
		switch d.Kind {
		case ast.Object:
			kind = "KObject"
		case ast.Interface:
			kind = "KInterface"
		case ast.Union:
			kind = "KUnion"
		case ast.Scalar:
			switch n {
			case "Int":
				kind = "KLeafInt"
			case "Boolean":
				kind = "KLeafBool"
			case "ID":
				kind = "KLeafID"
			}
		}
		var fields []string
		for _, f := range d.Fields {
			if strings.HasPrefix(f.Name, "__") {
				continue
			}
			fields = append(fields, fmt.Sprintf("{| f_name := %s; f_type := %s; f_guard := %s; f_resolver := %s |}",
				gen.Str(f.Name), typeCoq(f.Type), gen.Bool(f.Directives.ForName("guard") != nil), gen.Bool(isResolver(s, d, f))))
		}
		var ifaces, impls, poss []string
		for _, i := range d.Interfaces {
			ifaces = append(ifaces, gen.Str(i))
		}
		impls = append(impls, gen.Str(n))
		for _, i := range s.GetImplements(d) {
			impls = append(impls, gen.Str(i.Name))
		}
		if d.Kind == ast.Interface || d.Kind == ast.Union {
			ps := s.GetPossibleTypes(d)
			sort.Slice(ps, func(i, j int) bool { return ps[i].Position.Start < ps[j].Position.Start })
			for _, p := range ps {
				poss = append(poss, gen.Str(p.Name))
			}
		}
		items = append(items, fmt.Sprintf("{| t_name := %s; t_kind := %s; t_fields := %s; t_interfaces := %s; t_implementors := %s; t_possible := %s |}",
			gen.Str(n), kind, gen.List(fields), gen.List(ifaces), gen.List(impls), gen.List(poss)))
	}
	return gen.List(items)
}

// ---- validated operation -> Coq ---------------------------------------------------------------------

func optBool(d *ast.Directive, vars map[string]any) string {
	if d == nil {
		return "None"
	}
	a := d.Arguments.ForName("if")
	if a == nil {
		return "None"
	}
	v, err := a.Value.Value(vars)
	if err != nil {
		return "None"
	}
	b, _ := v.(bool)
	return "(Some " + gen.Bool(b) + ")"
}

func dirsCoq(ds ast.DirectiveList, vars map[string]any) string {
	if ds.ForName("skip") == nil && ds.ForName("include") == nil && ds.ForName("defer") == nil {
		return "no_dirs"
	}
	def := "None"
	if d := ds.ForName("defer"); d != nil {
		on, label := true, ""
		for _, a := range d.Arguments {
			v, err := a.Value.Value(vars)
			if err != nil {
				continue
			}
			switch a.Name {
			case "if":
				on, _ = v.(bool)
			case "label":
				label, _ = v.(string)
			}
		}
		def = fmt.Sprintf("(Some (%s, %s))", gen.Bool(on), gen.Str(label))
	}
	return fmt.Sprintf("{| d_skip := %s; d_include := %s; d_defer := %s |}", optBool(ds.ForName("skip"), vars), optBool(ds.ForName("include"), vars), def)
}

func SelsCoq(set ast.SelectionSet, vars map[string]any) string {
	var items []string
	for _, sel := range set {
		switch x := sel.(type) {
		case *ast.Field:
			parent := ""
			if x.ObjectDefinition != nil {
				parent = x.ObjectDefinition.Name
			}
			items = append(items, fmt.Sprintf("SField %s %s %s %s %s", gen.Str(x.Alias), gen.Str(x.Name), gen.Str(parent), dirsCoq(x.Directives, vars), SelsCoq(x.SelectionSet, vars)))
		case *ast.InlineFragment:
			items = append(items, fmt.Sprintf("SInline %s %s %s", gen.Str(x.TypeCondition), dirsCoq(x.Directives, vars), SelsCoq(x.SelectionSet, vars)))
		case *ast.FragmentSpread:
			items = append(items, fmt.Sprintf("SSpread %s %s %s %s", gen.Str(x.Name), gen.Str(x.Definition.TypeCondition), dirsCoq(x.Directives, vars), SelsCoq(x.Definition.SelectionSet, vars)))
		}
	}
	return gen.List(items)
}

// UnrelatedDup reports whether two fields with the same response key and name sit under parent
// definitions of which neither implements the other (the input shape of the known C01 finding).
func UnrelatedDup(s *ast.Schema, set ast.SelectionSet) bool {
	type occ struct{ alias, name, parent string }
	var occs []occ
	var walk func(set ast.SelectionSet)
	walk = func(set ast.SelectionSet) {
		for _, sel := range set {
			switch x := sel.(type) {
			case *ast.Field:
				if x.ObjectDefinition != nil {
					occs = append(occs, occ{x.Alias, x.Name, x.ObjectDefinition.Name})
				}
				walk(x.SelectionSet)
			case *ast.InlineFragment:
				walk(x.SelectionSet)
			case *ast.FragmentSpread:
				walk(x.Definition.SelectionSet)
			}
		}
	}
	walk(set)
	related := func(a, b string) bool {
		if a == b {
			return true
		}
		for _, i := range s.Types[a].Interfaces {
			if i == b {
				return true
			}
		}
		for _, i := range s.Types[b].Interfaces {
			if i == a {
				return true
			}
		}
		return false
	}
	for i := range occs {
		for j := i + 1; j < len(occs); j++ {
			if occs[i].alias == occs[j].alias && occs[i].name == occs[j].name && !related(occs[i].parent, occs[j].parent) {
				return true
			}
		}
	}
	return false
}

// ---- oracle -----------------------------------------------------------------------------------------

type FieldPlan struct {
	O     string `json:"o,omitempty"`
	Tag   string `json:"tag,omitempty"`
	Emit  int    `json:"emit,omitempty"`
	Delay int    `json:"delay,omitempty"`
	Nth   int    `json:"nth,omitempty"`
}

type Oracle struct {
	Fields    map[string]FieldPlan `json:"fields"`
	Elems     map[string]string    `json:"elems"`
	Lens      map[string]int       `json:"lens"`
	Concretes map[string]string    `json:"concretes"`
	Guards    map[string]FieldPlan `json:"guards"`
	ValueForm map[string]bool      `json:"value_form"`
	Entities  map[string]FieldPlan `json:"entities,omitempty"`
}

func NewOracle() Oracle {
	return Oracle{Fields: map[string]FieldPlan{}, Elems: map[string]string{}, Lens: map[string]int{}, Concretes: map[string]string{}, Guards: map[string]FieldPlan{}, ValueForm: map[string]bool{}}
}

func (o Oracle) Clone() Oracle {
	n := NewOracle()
	for k, v := range o.Fields {
		n.Fields[k] = v
	}
	for k, v := range o.Elems {
		n.Elems[k] = v
	}
	for k, v := range o.Lens {
		n.Lens[k] = v
	}
	for k, v := range o.Concretes {
		n.Concretes[k] = v
	}
	for k, v := range o.Guards {
		n.Guards[k] = v
	}
	for k, v := range o.ValueForm {
		n.ValueForm[k] = v
	}
	return n
}

func PathCoq(p string) string {
	if p == "" {
		return "[]"
	}
	var segs []string
	for _, s := range strings.Split(p, ".") {
		if n, err := strconv.Atoi(s); err == nil {
			segs = append(segs, fmt.Sprintf("PIdx %d", n))
		} else {
			segs = append(segs, "PKey "+gen.Str(s))
		}
	}
	return gen.List(segs)
}

func sortedKeys[V any](m map[string]V) []string {
	ks := make([]string, 0, len(m))
	for k := range m {
		ks = append(ks, k)
	}
	sort.Strings(ks)
	return ks
}

func outcomeCoq(o, tag string) string {
	switch o {
	case "null":
		return "RNull"
	case "typednil":
		return "RTypedNil"
	case "error":
		return "(RError " + gen.Str(tag) + ")"
	case "panic":
		return "(RPanic " + gen.Str("boom:"+tag) + ")"
	}
	return "RValue"
}

func (o Oracle) Coq() string {
	var f, e, l, c, g []string
	for _, k := range sortedKeys(o.Fields) {
		if o.Fields[k].O != "" {
			f = append(f, fmt.Sprintf("(%s, %s)", PathCoq(k), outcomeCoq(o.Fields[k].O, o.Fields[k].Tag)))
		}
	}
	for _, k := range sortedKeys(o.Elems) {
		e = append(e, fmt.Sprintf("(%s, %s)", PathCoq(k), outcomeCoq(o.Elems[k], "")))
	}
	for _, k := range sortedKeys(o.Lens) {
		l = append(l, fmt.Sprintf("(%s, %d%%nat)", PathCoq(k), o.Lens[k]))
	}
	for _, k := range sortedKeys(o.Concretes) {
		c = append(c, fmt.Sprintf("(%s, %s)", PathCoq(k), gen.Str(o.Concretes[k])))
	}
	for _, k := range sortedKeys(o.Guards) {
		var gr string
		switch o.Guards[k].O {
		case "block":
			gr = "GBlock"
		case "error":
			gr = "(GError " + gen.Str(o.Guards[k].Tag) + ")"
		case "panic":
			gr = "(GPanic " + gen.Str("boom:"+o.Guards[k].Tag) + ")"
		default:
			gr = "GNext"
		}
		g = append(g, fmt.Sprintf("(%s, %s)", PathCoq(k), gr))
	}
	return fmt.Sprintf("{| ot_fields := %s; ot_elems := %s; ot_lens := %s; ot_concretes := %s; ot_guards := %s |}", gen.List(f), gen.List(e), gen.List(l), gen.List(c), gen.List(g))
}

// ---- cases and results ------------------------------------------------------------------------------

type Case struct {
	ID            int            `json:"id"`
	Query         string         `json:"query"`
	Variables     map[string]any `json:"variables"`
	OperationName string         `json:"operationName"`
	Oracle        Oracle         `json:"oracle"`
	CancelAfter   int            `json:"cancel_after,omitempty"`
	StopAfter     int            `json:"stop_after,omitempty"`
	TimeoutMs     int            `json:"timeout_ms,omitempty"`
	CheckLeaks    bool           `json:"check_leaks,omitempty"`
	RegisterExt   bool           `json:"register_ext,omitempty"`
	SchemaSDL     string         `json:"schema_sdl,omitempty"`
	Introspection bool           `json:"introspection,omitempty"`
	Deadline      bool           `json:"deadline,omitempty"`
	Batch         []Case         `json:"batch,omitempty"`  // run these at the same time on one executable schema, Rounds times over
	Rounds        int            `json:"rounds,omitempty"` // each is compared (in the probe) with its own sequential run
}

type Result struct {
	ID           int               `json:"id"`
	Responses    []json.RawMessage `json:"responses"`
	CreateErrors json.RawMessage   `json:"create_errors,omitempty"`
	Log          [][4]string       `json:"log"`
	Args         map[string]string `json:"args,omitempty"`
	Recovers     int               `json:"recovers"`
	Hang         bool              `json:"hang,omitempty"`
	Leaked       []string          `json:"leaked,omitempty"`
	Order        []string          `json:"order,omitempty"`
	Crashed      bool              `json:"crashed,omitempty"`
	Ignored      []string          `json:"ignored,omitempty"`
	Changed      []int             `json:"changed,omitempty"`
	BatchRuns    int               `json:"batch_runs,omitempty"`
	BatchDiffs   []BatchDiff       `json:"batch_diffs,omitempty"`
}

// BatchDiff: a case of a batch whose responses, with the other cases in flight, differ from its own sequential run
type BatchDiff struct {
	Round int               `json:"round"`
	Index int               `json:"index"`
	Got   []json.RawMessage `json:"got"`
	Want  []json.RawMessage `json:"want"`
	Hang  bool              `json:"hang,omitempty"`
}

// ---- response canonicalisation ----------------------------------------------------------------------

// jsonCoq renders JSON as the model's jt term preserving object key order.
func jsonCoq(dec *json.Decoder) (string, error) {
	tok, err := dec.Token()
	if err != nil {
		return "", err
	}
	switch t := tok.(type) {
	case json.Delim:
		switch t {
		case '{':
			var items []string
			for dec.More() {
				k, err := dec.Token()
				if err != nil {
					return "", err
				}
				v, err := jsonCoq(dec)
				if err != nil {
					return "", err
				}
				items = append(items, fmt.Sprintf("(%s, %s)", gen.Str(k.(string)), v))
			}
			_, _ = dec.Token()
			return "(TObj " + gen.List(items) + ")", nil
		case '[':
			var items []string
			for dec.More() {
				v, err := jsonCoq(dec)
				if err != nil {
					return "", err
				}
				items = append(items, v)
			}
			_, _ = dec.Token()
			return "(TArr " + gen.List(items) + ")", nil
		}
	case string:
		return "(TStr " + gen.Str(t) + ")", nil
	case json.Number:
		n, err := t.Int64()
		if err != nil {
			return "(TStr " + gen.Str("float:"+t.String()) + ")", nil
		}
		return "(TInt " + gen.Z(n) + ")", nil
	case bool:
		return "(TBool " + gen.Bool(t) + ")", nil
	case nil:
		return "TNull", nil
	}
	return "", fmt.Errorf("unexpected token %v", tok)
}

func DataCoq(raw json.RawMessage) string {
	if len(raw) == 0 {
		return "TNull"
	}
	dec := json.NewDecoder(bytes.NewReader(raw))
	dec.UseNumber()
	s, err := jsonCoq(dec)
	if err != nil {
		return "(TStr \"unparsable\"%string)"
	}
	return s
}

type RespJSON = respJSON

type respJSON struct {
	Data    json.RawMessage `json:"data"`
	Errors  []errJSON       `json:"errors"`
	Path    []any           `json:"path"`
	Label   string          `json:"label"`
	HasNext *bool           `json:"hasNext"`
}
type errJSON struct {
	Message string `json:"message"`
	Path    []any  `json:"path"`
}

func pathOf(p []any) string {
	var segs []string
	for _, x := range p {
		switch v := x.(type) {
		case string:
			segs = append(segs, v)
		case float64:
			segs = append(segs, strconv.Itoa(int(v)))
		}
	}
	return strings.Join(segs, ".")
}

// ErrClassCoq maps an error message to the model's error class.
func ErrClassCoq(msg string) string {
	switch {
	case strings.HasPrefix(msg, "E:"):
		return "(EResolver " + gen.Str(strings.TrimPrefix(msg, "E:")) + ")"
	case strings.HasPrefix(msg, "D:"):
		return "(EDirective " + gen.Str(strings.TrimPrefix(msg, "D:")) + ")"
	case strings.HasPrefix(msg, "P:"):
		return "(EPanic " + gen.Str(strings.TrimPrefix(msg, "P:")) + ")"
	case msg == "must not be null" || strings.HasPrefix(msg, "the requested element is null"):
		return "ENullNonNull"
	}
	return "(EPanic " + gen.Str("other:"+sanitize(msg)) + ")"
}

func sanitize(s string) string {
	var b strings.Builder
	for _, c := range s {
		if c >= 0x20 && c < 0x7f {
			b.WriteRune(c)
		} else {
			b.WriteByte('?')
		}
	}
	return b.String()
}

func ErrorsCoq(errs []errJSON) string {
	var items []string
	for _, e := range errs {
		items = append(items, fmt.Sprintf("(%s, %s)", PathCoq(pathOf(e.Path)), ErrClassCoq(e.Message)))
	}
	sort.Strings(items)
	return gen.List(items)
}

func LogCoq(log [][4]string) string {
	var items []string
	for _, l := range log {
		if l[0] == "g" {
			items = append(items, "LGuard "+PathCoq(l[1]))
		} else {
			items = append(items, "LResolver "+PathCoq(l[1]))
		}
	}
	sort.Strings(items)
	return gen.List(items)
}

// First decodes the first (for plain operations: only) response of a result.
func (r *Result) First() (respJSON, bool) {
	var x respJSON
	if len(r.Responses) == 0 {
		return x, false
	}
	if err := json.Unmarshal(r.Responses[0], &x); err != nil {
		return x, false
	}
	return x, true
}

func (r *Result) All() []respJSON {
	var out []respJSON
	for _, raw := range r.Responses {
		var x respJSON
		_ = json.Unmarshal(raw, &x)
		out = append(out, x)
	}
	return out
}

func (x respJSON) DataTerm() string   { return DataCoq(x.Data) }
func (x respJSON) ErrorsTerm() string { return ErrorsCoq(x.Errors) }
func (x respJSON) PathString() string { return pathOf(x.Path) }

// HasDupKey: some object in the data has the same key twice (encoding/json would hide it).
func HasDupKey(raw json.RawMessage) bool {
	return strings.Contains(DataCoqDup(raw), "DUP")
}

// DataCoqDup marks duplicates while walking the token stream.
func DataCoqDup(raw json.RawMessage) string {
	dec := json.NewDecoder(bytes.NewReader(raw))
	dec.UseNumber()
	var walk func() string
	walk = func() string {
		tok, err := dec.Token()
		if err != nil {
			return ""
		}
		if d, ok := tok.(json.Delim); ok {
			out := ""
			switch d {
			case '{':
				seen := map[string]bool{}
				for dec.More() {
					k, _ := dec.Token()
					ks, _ := k.(string)
					if seen[ks] {
						out += "DUP"
					}
					seen[ks] = true
					out += walk()
				}
				_, _ = dec.Token()
			case '[':
				for dec.More() {
					out += walk()
				}
				_, _ = dec.Token()
			}
			return out
		}
		return ""
	}
	return walk()
}

// ---- running probes ---------------------------------------------------------------------------------

type Probe struct {
	Cfg   Config
	Built *probe.Built
}

// BuildProbes builds (or fetches from the cache) one probe per configuration, in parallel.
func BuildProbes(schema string, cfgs []Config, extra map[string]string) ([]Probe, error) {
	return BuildProbesRace(schema, cfgs, extra, false)
}

// Races collects race-detector reports printed by probe processes.
var (
	racesMu sync.Mutex
	Races   []string
)

// FragileGo: the Go model of the probe schema's Fragile scalar - user code whose unmarshaler can fail or panic.
const FragileGo = `package graph

import (
	"errors"
	"fmt"
	"io"
	"strconv"
)

type Fragile string

func (f *Fragile) UnmarshalGQL(v any) error {
	s, _ := v.(string)
	switch s {
	case "boom":
		panic("boom:scalar")
	case "bad":
		return errors.New("E:scalar")
	}
	*f = Fragile(fmt.Sprint(v))
	return nil
}

func (f Fragile) MarshalGQL(w io.Writer) { io.WriteString(w, strconv.Quote(string(f))) }
`

func BuildProbesRace(schema string, cfgs []Config, extra map[string]string, race bool) ([]Probe, error) {
	if strings.Contains(schema, "scalar Fragile") {
		e := map[string]string{"graph/fragile.go": FragileGo}
		for k, v := range extra {
			e[k] = v
		}
		extra = e
	}
	out := make([]Probe, len(cfgs))
	errs := make([]error, len(cfgs))
	var wg sync.WaitGroup
	sem := make(chan struct{}, 6)
	for i, c := range cfgs {
		wg.Add(1)
		go func(i int, c Config) {
			defer wg.Done()
			sem <- struct{}{}
			defer func() { <-sem }()
			b, err := probe.Build(probe.Spec{Name: c.Name, Schema: SplitSchema(schema), Config: c.YAML, Extra: extra, Race: race}, false)
			out[i] = Probe{Cfg: c, Built: b}
			errs[i] = err
		}(i, c)
	}
	wg.Wait()
	for _, e := range errs {
		if e != nil {
			return nil, e
		}
	}
	return out, nil
}

// SplitSchema puts the directive definitions, scalars and root types into schema.graphqls and every other type into
// types.graphqls, so that under the follow-schema layout objects and the directives they meet live in different
// generated files.
func SplitSchema(schema string) map[string]string {
	var roots, types []string
	for _, block := range strings.Split(schema, "\n\n") {
		t := strings.TrimSpace(block)
		if t == "" {
			continue
		}
		isRoot := false
		for _, line := range strings.Split(t, "\n") {
			l := strings.TrimSpace(line)
			if l == "" || strings.HasPrefix(l, "#") || strings.HasPrefix(l, "\"") {
				continue
			}
			for _, pre := range []string{"directive ", "scalar ", "schema ", "schema{", "type Query", "type Mutation", "type Subscription", "extend schema"} {
				if strings.HasPrefix(l, pre) {
					isRoot = true
				}
			}
			break
		}
		if isRoot {
			roots = append(roots, t)
		} else {
			types = append(types, t)
		}
	}
	out := map[string]string{"schema.graphqls": strings.Join(roots, "\n\n") + "\n"}
	if len(types) > 0 {
		out["types.graphqls"] = strings.Join(types, "\n\n") + "\n"
	}
	return out
}

// RunAll feeds the cases to one probe process (restarting it after a crash or hang).
func RunAll(bin string, cases []Case) ([]Result, error) {
	results := make([]Result, len(cases))
	var sess *probe.Session
	var err error
	closeSess := func() {
		if sess == nil {
			return
		}
		_ = sess.Close()
		if out := sess.Stderr.String(); strings.Contains(out, "DATA RACE") {
			racesMu.Lock()
			if len(out) > 4000 {
				out = out[:4000]
			}
			Races = append(Races, out)
			racesMu.Unlock()
		}
		sess = nil
	}
	for i := range cases {
		if sess == nil {
			sess, err = probe.Start(bin)
			if err != nil {
				return nil, err
			}
		}
		var res Result
		crashed, derr := sess.Do(cases[i], &res)
		if derr != nil {
			return nil, derr
		}
		if crashed {
			closeSess()
			res = Result{ID: cases[i].ID, Crashed: true}
		} else if res.Hang || len(res.Leaked) > 0 {
			closeSess()
		}
		results[i] = res
	}
	closeSess()
	return results, nil
}

// OrderCoq renders the real-time start/end events of resolver calls.
func OrderCoq(order []string) string {
	var items []string
	for _, e := range order {
		switch {
		case strings.HasPrefix(e, "start "):
			items = append(items, "(true, "+PathCoq(strings.TrimPrefix(e, "start "))+")")
		case strings.HasPrefix(e, "end "):
			items = append(items, "(false, "+PathCoq(strings.TrimPrefix(e, "end "))+")")
		}
	}
	return gen.List(items)
}

// Effective returns the oracle as this configuration could express it (entries the driver reported as
// not expressible with the configuration's Go types removed).
func (o Oracle) Effective(ignored []string) Oracle {
	if len(ignored) == 0 {
		return o
	}
	n := o.Clone()
	for _, ig := range ignored {
		if strings.HasPrefix(ig, "elem:") {
			delete(n.Elems, strings.TrimPrefix(ig, "elem:"))
		}
		if strings.HasPrefix(ig, "field:") {
			k := strings.TrimPrefix(ig, "field:")
			if fp, ok := n.Fields[k]; ok && fp.O == "null" {
				fp.O = ""
				n.Fields[k] = fp
			}
		}
	}
	return n
}
