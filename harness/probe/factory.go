// Package probe is the probe-server factory: at check time it writes a scratch Go module (replace =>
// /repo), runs gqlgen's generator from /repo's CURRENT tree on a probe schema and configuration,
// compiles the result with the universal-resolver driver and hands back the binary.  Products are
// cached under /verif/.cache keyed by the content of every file of /repo the build can read plus the
// probe inputs, so a changed tree is a new key.
package probe

import (
	"bytes"
	"crypto/sha256"
	_ "embed"
	"encoding/hex"
	"encoding/json"
	"fmt"
	"io"
	"io/fs"
	"os"
	"os/exec"
	"path/filepath"
	"sort"
	"strings"
	"sync"
	"time"

	"github.com/vektah/gqlparser/v2"
	"github.com/vektah/gqlparser/v2/ast"
)

//go:embed driver/main.go.txt
var driverText string

// factoryVersion is part of every cache key: bump it when the files the factory itself writes change.
const factoryVersion = "6"

// Spec is one probe server: a schema and a gqlgen.yml body.
type Spec struct {
	Name   string            // for diagnostics
	Schema map[string]string // file name -> SDL
	Config string            // gqlgen.yml
	Extra  map[string]string // additional files (relative path -> content)
	// StubFile is where stubgen writes (must be inside the exec package directory)
	StubFile string
	// Race builds the probe with the Go race detector.
	Race bool
	// ParsePrelude is SDL the factory prepends when it parses the schema itself (directive definitions that a
	// plugin adds during generation, e.g. federation's @key); it is not written to the probe module.
	ParsePrelude string
}

func repoDir() string {
	if d := os.Getenv("VERIF_REPO"); d != "" {
		return d
	}
	return "/repo"
}

func verifDir() string {
	if d := os.Getenv("VERIF_DIR"); d != "" {
		return d
	}
	return "/verif"
}

var (
	treeOnce sync.Once
	treeHash string
)

// TreeHash hashes every file of /repo that generation or compilation can read.
func TreeHash() string {
	treeOnce.Do(func() {
		h := sha256.New()
		root := repoDir()
		var files []string
		for _, top := range []string{"api", "codegen", "graphql", "plugin", "internal", "complexity", "handler", "client", "go.mod", "go.sum", "main.go"} {
			_ = filepath.WalkDir(filepath.Join(root, top), func(p string, d fs.DirEntry, err error) error {
				if err != nil {
					return nil
				}
				if d.IsDir() {
					if d.Name() == "testdata" || d.Name() == "testserver" || d.Name() == ".git" {
						return filepath.SkipDir
					}
					return nil
				}
				if strings.HasSuffix(p, "_test.go") {
					return nil
				}
				files = append(files, p)
				return nil
			})
		}
		sort.Strings(files)
		for _, f := range files {
			b, err := os.ReadFile(f)
			if err != nil {
				continue
			}
			fmt.Fprintf(h, "%s %d\n", strings.TrimPrefix(f, root), len(b))
			h.Write(b)
		}
		treeHash = hex.EncodeToString(h.Sum(nil))
	})
	return treeHash
}

func (s Spec) key() string {
	h := sha256.New()
	io.WriteString(h, TreeHash())
	io.WriteString(h, driverText)
	io.WriteString(h, factoryVersion)
	b, _ := json.Marshal(s)
	h.Write(b)
	return hex.EncodeToString(h.Sum(nil))[:24]
}

// Result of building one probe.
type Built struct {
	Bin      string
	Dir      string // scratch module (kept only when KeepDir)
	GenErr   string // generator failed (stderr)
	BuildErr string // go build / vet failed
	Cached   bool
	GenSecs  float64
	CompSecs float64
}

var goEnv = func() []string {
	env := []string{}
	for _, e := range os.Environ() {
		if strings.HasPrefix(e, "GOFLAGS=") || strings.HasPrefix(e, "GOPROXY=") || e == "GOTOOLCHAIN=local" || e == "GOSUMDB=off" {
			continue
		}
		env = append(env, e)
	}
	return append(env, "GOFLAGS=-mod=mod", "GOPROXY=off")
}()

func typesFile(schemaText, prelude string) (string, error) {
	sch, err := gqlparser.LoadSchema(&ast.Source{Name: "schema.graphqls", Input: prelude + schemaText})
	if err != nil {
		return "", err
	}
	var names []string
	for n, d := range sch.Types {
		if d.Kind == ast.Object && !strings.HasPrefix(n, "__") && d != sch.Query && d != sch.Mutation && d != sch.Subscription && !d.BuiltIn {
			names = append(names, n)
		}
	}
	sort.Strings(names)
	var b bytes.Buffer
	b.WriteString("package main\n\nimport (\n\t\"reflect\"\n\n\t\"probe/graph\"\n)\n\n")
	fmt.Fprintf(&b, "const schemaText = %q\n\n", schemaText)
	b.WriteString("func registerTypes() {\n")
	for _, n := range names {
		fmt.Fprintf(&b, "\ttypeOf[%q] = reflect.TypeOf(graph.%s{})\n", n, goName(n))
	}
	b.WriteString("\t_ = reflect.TypeOf\n\t_ = graph.Stub{}\n}\n")
	return b.String(), nil
}

// goName: the probe schemas use type names that are already exported Go identifiers.
func goName(n string) string { return strings.ToUpper(n[:1]) + n[1:] }

// Build generates and compiles the probe, or returns the cached binary.
func Build(s Spec, keepDir bool) (*Built, error) {
	cacheRoot := filepath.Join(verifDir(), ".cache", "probes")
	key := s.key()
	cdir := filepath.Join(cacheRoot, key)
	bin := filepath.Join(cdir, "probe")
	if !keepDir {
		if _, err := os.Stat(bin); err == nil {
			now := time.Now()
			_ = os.Chtimes(cdir, now, now)
			return &Built{Bin: bin, Cached: true}, nil
		}
		if b, err := os.ReadFile(filepath.Join(cdir, "failure.json")); err == nil {
			var out Built
			if json.Unmarshal(b, &out) == nil {
				out.Cached = true
				return &out, nil
			}
		}
	}
	work := os.Getenv("VERIF_WORK")
	if work == "" {
		work = filepath.Join(verifDir(), ".work")
	}
	dir := filepath.Join(work, "probe-"+key)
	_ = os.RemoveAll(dir)
	if err := os.MkdirAll(filepath.Join(dir, "graph"), 0o755); err != nil {
		return nil, err
	}
	out := &Built{Dir: dir}
	defer func() {
		if !keepDir {
			_ = os.RemoveAll(dir)
			out.Dir = ""
		}
	}()
	write := func(rel, content string) error {
		p := filepath.Join(dir, rel)
		if err := os.MkdirAll(filepath.Dir(p), 0o755); err != nil {
			return err
		}
		return os.WriteFile(p, []byte(content), 0o644)
	}
	gomod := "module probe\n\ngo 1.23.8\n\nrequire github.com/99designs/gqlgen v0.0.0\n\nreplace github.com/99designs/gqlgen => " + repoDir() + "\n"
	if err := write("go.mod", gomod); err != nil {
		return nil, err
	}
	sum, _ := os.ReadFile(filepath.Join(repoDir(), "go.sum"))
	_ = write("go.sum", string(sum))
	_ = write("gqlgen.yml", s.Config)
	var all []string
	var names []string
	for n := range s.Schema {
		names = append(names, n)
	}
	sort.Strings(names)
	for _, n := range names {
		_ = write(n, s.Schema[n])
		all = append(all, s.Schema[n])
	}
	for n, c := range s.Extra {
		_ = write(n, c)
	}
	self, _ := os.Executable()
	stub := s.StubFile
	if stub == "" {
		stub = "graph/stub.go"
	}
	t0 := time.Now()
	cmd := exec.Command(self, "gen", dir, stub)
	cmd.Env = goEnv
	var stderr bytes.Buffer
	cmd.Stderr = &stderr
	cmd.Stdout = &stderr
	err := cmd.Run()
	out.GenSecs = time.Since(t0).Seconds()
	fail := func() (*Built, error) {
		_ = os.MkdirAll(cdir, 0o755)
		b, _ := json.Marshal(out)
		_ = os.WriteFile(filepath.Join(cdir, "failure.json"), b, 0o644)
		return out, nil
	}
	if err != nil {
		out.GenErr = strings.TrimSpace(stderr.String())
		if out.GenErr == "" {
			out.GenErr = err.Error()
		}
		return fail()
	}
	tf, err := typesFile(strings.Join(all, "\n"), s.ParsePrelude)
	if err != nil {
		return nil, err
	}
	_ = write("probe_types.go", tf)
	_ = write("main.go", driverText)
	t1 := time.Now()
	tmpBin := filepath.Join(dir, "probe.bin")
	args := []string{"build", "-o", tmpBin}
	benv := goEnv
	if s.Race {
		args = append(args, "-race")
		benv = append(append([]string{}, goEnv...), "CGO_ENABLED=1")
	}
	build := exec.Command("go", append(args, ".")...)
	build.Dir = dir
	build.Env = benv
	var bout bytes.Buffer
	build.Stderr = &bout
	build.Stdout = &bout
	err = build.Run()
	out.CompSecs = time.Since(t1).Seconds()
	if err != nil {
		out.BuildErr = strings.TrimSpace(bout.String())
		return fail()
	}
	if err := os.MkdirAll(cdir, 0o755); err != nil {
		return nil, err
	}
	if err := os.Rename(tmpBin, bin); err != nil {
		// different filesystem: copy
		b, rerr := os.ReadFile(tmpBin)
		if rerr != nil {
			return nil, rerr
		}
		if werr := os.WriteFile(bin, b, 0o755); werr != nil {
			return nil, werr
		}
	}
	out.Bin = bin
	prune(cacheRoot, 40)
	return out, nil
}

// prune keeps the most recently used n cache entries.
func prune(root string, n int) {
	ents, err := os.ReadDir(root)
	if err != nil || len(ents) <= n {
		return
	}
	type e struct {
		name string
		t    time.Time
	}
	var es []e
	for _, d := range ents {
		if info, err := d.Info(); err == nil {
			es = append(es, e{d.Name(), info.ModTime()})
		}
	}
	sort.Slice(es, func(i, j int) bool { return es[i].t.After(es[j].t) })
	for _, x := range es[n:] {
		_ = os.RemoveAll(filepath.Join(root, x.name))
	}
}

// Session is a running probe process fed with cases.
type Session struct {
	cmd    *exec.Cmd
	in     io.WriteCloser
	out    *json.Decoder
	Stderr *bytes.Buffer
}

func Start(bin string) (*Session, error) {
	cmd := exec.Command(bin)
	in, err := cmd.StdinPipe()
	if err != nil {
		return nil, err
	}
	outp, err := cmd.StdoutPipe()
	if err != nil {
		return nil, err
	}
	var eb bytes.Buffer
	cmd.Stderr = &eb
	if f := os.Getenv("VERIF_PROBE_STDERR"); f != "" { // debugging aid: keep a probe's stderr (goroutine dumps on SIGQUIT) in a file
		if fh, err := os.OpenFile(f, os.O_CREATE|os.O_APPEND|os.O_WRONLY, 0o644); err == nil {
			cmd.Stderr = io.MultiWriter(&eb, fh)
		}
	}
	if err := cmd.Start(); err != nil {
		return nil, err
	}
	var rd io.Reader = outp
	if f := os.Getenv("VERIF_PROBE_STDOUT"); f != "" { // debugging aid
		if fh, err := os.OpenFile(f, os.O_CREATE|os.O_APPEND|os.O_WRONLY, 0o644); err == nil {
			rd = io.TeeReader(outp, fh)
		}
	}
	return &Session{cmd: cmd, in: in, out: json.NewDecoder(rd), Stderr: &eb}, nil
}

// Do sends one case and decodes one result; a dead process is reported as crashed=true.
func (s *Session) Do(tc any, res any) (crashed bool, err error) {
	b, err := json.Marshal(tc)
	if err != nil {
		return false, err
	}
	if _, err := s.in.Write(append(b, '\n')); err != nil {
		return true, nil
	}
	if err := s.out.Decode(res); err != nil {
		return true, nil
	}
	return false, nil
}

func (s *Session) Close() (exitCode int) {
	_ = s.in.Close()
	err := s.cmd.Wait()
	if err != nil {
		if ee, ok := err.(*exec.ExitError); ok {
			return ee.ExitCode()
		}
		return -1
	}
	return 0
}
