"""Per-property registry used by bin/check: engine, trusted base, assumptions."""

ALLOWED_AXIOMS = {
    # standard-library axioms a theorem may depend on; each use is reported in the evidence.
    "functional_extensionality_dep", "FunctionalExtensionality.functional_extensionality_dep",
    "proof_irrelevance", "ProofIrrelevance.proof_irrelevance", "Classical_Prop.classic", "classic",
    "JMeq_eq", "JMeq.JMeq_eq", "Eqdep.Eq_rect_eq.eq_rect_eq", "eq_rect_eq",
}

COMMON_TRUSTED = [
    "Coq 8.16.1 kernel (coqc, full .vo build); vm_compute for case evaluation, finite sweeps and refutation witnesses; native_compute not used",
    "no Axiom/Parameter/Admitted in the development (scanned on every run); axioms per theorem as printed by Print Assumptions (listed under theorems)",
    "hand-written Gallina model tied to /repo by the differential correspondence run of this check (Go harness: generators, Go->Coq term printers, canonicaliser; bin/check)",
    "Go compiler/runtime, net/http, encoding/json and gqlparser (parser, validator, ArgumentMap, VariableValues) are modelled as observed, not verified",
]

HOOK_COMMITS = ["1b26506"]

# Properties without a check yet (work in progress this session), each with the reason it is not claimed now.
_WIP = "check not built yet in this session (design in DESIGN.md section 6); not claimed until its theorem and correspondence run"
NOT_APPLICABLE = {("C%02d" % i): _WIP for i in range(1, 21)}

PROPS = {
    "C10": {
        "engine": "c10",
        "technique": "Coq proof (totality, delivery and frame of the upload-path walker by induction on the path; legacy walker refuted) + differential correspondence against RawParams.AddUpload and malformed requests on every transport",
        "level_text": "Theorems for every variables value and every map path: the repaired AddUpload never panics, on success the addressed position holds the upload and every position leaving the path reads as before; the pinned-commit walker is refuted on five shapes. The model is run against the real AddUpload on all 1- and 2-segment paths over seven variable shapes on every check. Transport-level malformed input (null bodies, bad multipart, websocket frames) is exercised against the real transports with the recover hook counted; that part is observation tied to a small decode model, and rests on encoding/json, mime/multipart and gorilla not panicking (partial).",
        "level_note": "Trusted: Coq kernel + vm_compute; harness (path segmentation by strings.Split/strconv.Atoi is done in the harness as input translation); encoding/json, mime/multipart, gorilla/websocket.",
        "trusted": ["strings.Split / strconv.Atoi classification of path segments is performed by the harness (input translation)"],
        "assumptions": ["'for any bytes' at the transport level rests on encoding/json, mime/multipart and gorilla/websocket not panicking (exercised, not proved)"],
    },
    "C08": {
        "engine": "c08",
        "technique": "Coq proof (UTF-8 decoder vs RFC 3629 encoder, JSON string grammar, decimal printer/parser round trip) + differential correspondence of writeQuotedString, integer marshalers/unmarshalers, FieldSet/Array against the model",
        "level_text": "Theorems for every byte string (no validity hypothesis): the escaper's output is valid UTF-8 and a JSON string literal denoting the input with each offending byte replaced by U+FFFD (identity on valid input); Go's range decoding accepts exactly RFC 3629 encodings; every integer of every width prints to a JSON number token that parses back through gqlgen's own decoding and unmarshaler; the pre-repair escaper is refuted. Library formatters (%g, time, duration, uuid, encoding/json for Map/Any) are outside the model: validated and round-tripped by the harness only (partial).",
        "level_note": "Trusted: Coq kernel + vm_compute; harness; strconv.Itoa/FormatInt/ParseInt are modelled (digit loop) and checked by correspondence; float text, time.Format, uuid, sosodev/duration, encoding/json are not modelled (partial). Composition of objects/lists is modelled as the punctuation writer and compared byte-for-byte; its JSON validity is judged by encoding/json in the harness.",
        "trusted": ["strconv integer formatting/parsing modelled as a digit loop (20 digits of fuel; theorems stated for |z| < 10^20)",
                    "library formatters (fmt %g, time.Format, uuid.String, duration.Format, encoding/json) validated by encoding/json in the harness, not modelled"],
        "assumptions": ["JSON decoding of the written bytes back to Go values is gqlgen's own (encoding/json with UseNumber), trusted",
                        "executable monitors (json_unquote, utf8_validb) restate the relational specification; they are run on the model's own output in every check (monmodel) but their agreement with the relations is not itself proved"],
    },
    "C15": {
        "engine": "c15",
        "technique": "Coq proof (invariant by induction over request histories, any hash function, map/LRU cache) + differential correspondence against the real APQ extension over exhaustive short and random long histories",
        "level_text": "Theorems for every hash function H, every cache policy shipped (MapCache, LRU k) and every request history: a cached binding was sent earlier as text with exactly that hash and hashes to it; a hash-only request executes exactly such a text or is PersistedQueryNotFound; a mismatching request is rejected with the cache unchanged; no history rebinds a hash. The model is run against handler.Server+POST+AutomaticPersistedQuery on every check.",
        "level_note": "Trusted: Coq kernel + vm_compute; harness; mapstructure/encoding/json decoding of the extension (classified by the harness's abstract request forms and checked by the correspondence); hashicorp LRU is modelled (recency list) and checked by the correspondence, not verified; crypto/sha256 is the instance of H (no collision-resistance assumption is used).",
        "trusted": ["hash function is a Section variable (no assumption); harness instantiates it with crypto/sha256 on three texts",
                    "LRU semantics (hashicorp/golang-lru v2) modelled as a recency list; MapCache as an unbounded list"],
        "assumptions": ["query texts used by the harness are valid documents, so 'pipeline continues with text q' is observed as Exec seeing RawQuery = q"],
    },
    "C14": {
        "engine": "c14",
        "technique": "Coq proof (induction over the selection tree; lia over explicit 64-bit wrap) + differential correspondence of the model against complexity.Calculate/safeAdd/ComplexityLimit",
        "level_text": "Theorems over all int pairs, all selection trees, all custom functions: safeAdd never wraps and equals the saturating sum; Calculate equals the documented definition, is in [0,MaxInt], ignores negative custom costs, is monotone under added selections (for monotone custom functions; necessity shown); the gate rejects iff complexity > limit. The model is run against the real code on generated operations x custom tables and a boundary grid on every check.",
        "level_note": "Trusted: Coq kernel + vm_compute; the harness (generators, term printers); gqlparser's validation/ArgumentMap. Custom functions are oracles. 'No resolver runs' is observed at the ExecutableSchema.Exec boundary of a real server.",
        "trusted": [
            "custom complexity functions are user code: the theorems quantify over every function returning a Go int; the harness instantiates a table family (const/child+k/child*k/arg*child) on both sides",
            "translation of a validated gqlparser selection set to the model's csel term (harness/engines/c14 selsCoq)",
        ],
        "assumptions": [
            "C14_monotone assumes custom functions are monotone in the child cost (shown necessary by C14_monotone_needs_hyp_refuted)",
            "'invokes no resolver' is observed at the ExecutableSchema.Exec boundary of a real handler.Server",
        ],
    },
}
