"""Per-property registry used by bin/check: engine, trusted base, assumptions."""

ALLOWED_AXIOMS = {
    # standard-library axioms a theorem may depend on; each use is reported in the evidence.
    "functional_extensionality_dep", "FunctionalExtensionality.functional_extensionality_dep",
    "proof_irrelevance", "ProofIrrelevance.proof_irrelevance", "Classical_Prop.classic", "classic",
    "JMeq_eq", "JMeq.JMeq_eq", "Eqdep.Eq_rect_eq.eq_rect_eq", "eq_rect_eq",
}

COMMON_TRUSTED = [
    "Coq 8.16.1 kernel (coqc, full .vo build); vm_compute for case evaluation, finite sweeps and refutation witnesses; native_compute not used",
    "no Axiom/Parameter/Admitted in the development (scanned on every run); axioms per theorem as printed by Print Assumptions (listed under theorems)",
    "hand-written Gallina model tied to /repo by the differential correspondence run of this check (Go harness: generators, Go->Coq term printers, canonicaliser; bin/check)",
    "Go compiler/runtime, net/http, encoding/json and gqlparser (parser, validator, ArgumentMap, VariableValues) are modelled as observed, not verified",
]

HOOK_COMMITS = ["1b26506"]

# Properties without a check yet (work in progress this session), each with the reason it is not claimed now.
_WIP = "check not built yet in this session (design in DESIGN.md section 6); not claimed until its theorem and correspondence run"
NOT_APPLICABLE = {("C%02d" % i): _WIP for i in range(1, 21)}

PROPS = {
    "C02": {
        "engine": "c02", "monitors": ["mon"], "finding_checks": {"mongp": "unset-variable-inside-literal-becomes-null"},
        "engine_timeout": {"quick": 900, "thorough": 7200},
        "technique": "Coq proof (gqlgen's argument/input coercion agrees with the specification's on every validated value, by induction on depth with generic list/field-loop lemmas; no integer unmarshaler changes a number) + differential correspondence of received Go argument values on generated probe servers",
        "level_text": "Theorems for every input schema, type, validated value and depth: same error path or a received value that shows the specification's coerced value (defaults for absent keys only, explicit null kept, omitted vs null exactly through Omittable, single value to list at every level, nested inputs, enums, ID from integers); every integer unmarshaler returns the mathematical value of its input or an error (UnmarshalUintID repaired; legacy refuted). Every check generates probe servers from the current templates under three input-related configurations, sends generated literals / variables / defaults / unset variables, abstracts the Go values the resolver received and compares them with the model of gqlgen (correspondence) and with the specification (monitor); plus all 8 integer unmarshalers x 110 dynamic values. Custom scalars and argument directives are not modelled; floats are abstract: partial.",
        "level_note": "Trusted: Coq kernel + vm_compute; harness (abstraction of rendered Go values; the specification's reading of 'provided' is computed by the harness from the AST); gqlparser's validation, ArgumentMap and VariableValues.",
        "trusted": ["gqlparser: validation, ArgumentMap (argument defaults), VariableValues (variable coercion) - modelled as the provider of the decoded values",
                    "the abstraction from the driver's canonical rendering of received Go values to the model's aval"],
        "assumptions": ["arguments of one probe field cover the input type shapes; random schemas are not generated for this property"],
    },
    "C13": {
        "engine": "c13", "monitors": ["mon"],
        "finding_checks": {"monorphan": "deferred-group-delivered-for-discarded-object", "monorder": "nested-deferred-group-before-its-parent"},
        "engine_timeout": {"quick": 900, "thorough": 7200},
        "technique": "Coq model of deferred delivery (split of the outcome tree into initial payload and groups, client merge in arrival order, content function) with proofs of the content and sequence theorems + differential correspondence of every payload sequence of generated probe servers",
        "level_text": "Executable model: which fields go to which group (object.gotpl), placeholder nulls, group nulling, nested groups started by their parent's execution, and the client's merge in arrival order; the content the deferral must preserve is a structural function of the outcome tree. Every check runs pinned and random deferred operations with failures inside and outside groups and delay-induced completion orders on probe servers generated from the current templates, and requires: the payload multiset is the model's, each started group delivered once with its object's path and label, merged payloads equal the content, errors are plain errors, hasNext true on all but the last. Theorems: see Properties/C13.v (content unchanged when no deferred non-null field fails; hasNext pattern over all runs of the response-function LTS; kept findings refuted by witnesses). Partial: the merge theorem is proved for the canonical parent-first order only.",
        "level_note": "Trusted: Coq kernel + vm_compute; harness; the client merge rule (each payload's object merged key by key at its path, in arrival order) is this development's reading of the incremental-delivery convention.",
        "trusted": ["the merge rule a client applies is modelled as: object at path, keys overwritten/added, a null group payload delivers nothing"],
        "assumptions": ["subscriptions and mutations with @defer are outside this check"],
    },
    "C05": {
        "engine": "c05", "monitors": ["mon"],
        "engine_timeout": {"quick": 900, "thorough": 7200},
        "technique": "Coq proof (invariants over all traces of the list-join and deferred-group transition systems; pinned commit refuted) + cancellation-point enumeration on generated probe servers with hang and goroutine-leak detection",
        "level_text": "PARTIAL. Theorems over every trace (any length, worker limit, cancellation instant, interleaving of loop and workers): once every started closure has returned wg.Wait() is enabled, and the loop is never stuck before that; in every cancelled quiescent state no deferred-group goroutine remains, whatever the consumer asked for; both pinned-commit behaviours are refuted by witnesses. Real time and real goroutine liveness cannot be carried by a theorem: every check enumerates cancellation points (before dispatch, on entry of the k-th resolver) x consumer {drain, stop after first payload} x worker_limit {0,1,2,8} on probe servers generated from the current templates and requires that the response function returns and that no goroutine with a generated-code or gqlgen frame is alive after cancellation. Transports are represented by their consumer behaviour, not run as HTTP/websocket servers here.",
        "level_note": "Trusted: Coq kernel + vm_compute; harness (hang = no return within 1.5 s; leak = runtime.Stack scan up to 80 ms after cancel); x/sync semaphore semantics (Acquire fails at once on a done context) are modelled.",
        "trusted": ["x/sync/semaphore.Acquire fails immediately on a done context (v0.13 source), modelled",
                    "the universal resolver returns promptly when its context is cancelled, as the property assumes of resolvers"],
        "assumptions": ["wall-clock bounds and goroutine liveness are observed, not proved", "SSE / multipart-mixed / websocket transports are represented by 'drain' and 'stop after k' consumers"],
    },
    "C06": {
        "engine": "c06", "monitors": ["c06"], "finding_checks": {"montn": "typed-nil-in-abstract-position"},
        "engine_timeout": {"quick": 900, "thorough": 7200},
        "technique": "Coq proof (every interleaving of the tasks' atomic actions yields the sequential slots, Invalids and a permutation of the errors; disjoint footprint of FieldSet tasks) + the same operations under adversarial delay schedules on generated probe servers",
        "level_text": "Theorem over all interleavings admitted by the action model (error append, slot publish, Invalids bump) of any task set with distinct slots: same data and same multiset of errors as the sequential schedule; the tasks of an object are shown to have distinct slots and their sequential schedule is the completion function of C01. Every check replays each plan under random / reversed / straggler delay schedules with worker_limit 0, 1, 2 and requires the single predicted response; mutation root fields must start only after the previous root field and its whole sub-selection ended (start/end events). Absence of data races is runtime evidence only: the thorough tier builds the probes with the race detector; partial.",
        "level_note": "Trusted: Coq kernel + vm_compute; harness; Go memory model / scheduler; the action model (what is atomic) is read off object.gotpl, fieldset.go and context_response.go and is not itself verified.",
        "trusted": ["the atomicity assumed for each action (mutex around the error list, atomic Invalids counter, one writer per slot) is read from the source, and checked only dynamically (race detector, thorough tier)"],
        "assumptions": ["resolvers are deterministic functions of the oracle; schedules are induced by sleep-based delay plans, not exhaustively enumerated on the implementation"],
    },
    "C04": {
        "engine": "c04", "monitors": ["c04"], "finding_checks": {"montn": "typed-nil-in-abstract-position"},
        "engine_timeout": {"quick": 900, "thorough": 7200},
        "technique": "Coq proof (containment over one-hole contexts of outcome trees: congruence, chain propagation, compositional errors, recover count) + exhaustive single-fault enumeration on generated probe servers compared with the model",
        "level_text": "Theorems for every context, every non-null chain below a nullable ancestor and every failure class: the data equals the data with that ancestor null (nothing outside changes), errors grow by exactly the failure's entry at its path; nullable positions absorb; errors of multi-fault sets are compositional; the recover hook count equals the panics reached. Every check enumerates every single fault point (each resolver and directive invocation from the log) x {error, panic} on probe servers generated from the current templates with worker_limit 0, 1 and 2, plus random multi-fault sets, requires the specified response, recover count = panics, and that the probe process survives. Panics on spawned goroutines are exercised (concurrent siblings, list elements); panics inside custom marshalers and subscription events are not yet: partial.",
        "level_note": "Trusted: Coq kernel + vm_compute; harness; the tie between gqlgen's completion and the specification's is C01's theorem. 'The process keeps serving' is observed (the same probe process answers all later cases).",
        "trusted": ["containment is proved on the specification's completion and transported to gqlgen by C01_complete_equiv",
                    "goroutine placement of recover sites is exercised by the correspondence (a panic that escaped would kill the probe process), not modelled"],
        "assumptions": ["faults at argument unmarshalers, custom marshalers and subscription events are not enumerated by this check"],
    },
    "C01": {
        "engine": "c01", "monitors": ["mon"], "finding_checks": {"montn": "typed-nil-in-abstract-position"},
        "engine_timeout": {"quick": 900, "thorough": 7200},
        "technique": "Coq proof (value completion of gqlgen = CompleteValue of the specification by induction over outcome trees; response keys unique by an invariant over collectFields; one error per failure) + differential correspondence of probe servers generated at check time against the model of gqlgen and against the model of the GraphQL algorithm",
        "level_text": "Theorems over every outcome tree (any list/object nesting, nullability, failing positions): gqlgen's Null-marker/Invalids completion equals the specification's CompleteValue (same errors in order, same data, null at the nearest nullable ancestor) except the kept typed-nil finding, whose exact rule is also proved; errors are in bijection with originating failures and carry their paths; the repaired collectFields yields each response key once for validated selections of one object, and a skipped spread is not a visit (pinned commit refuted). Every check regenerates the probe servers from the current templates for the configuration matrix, runs random valid operations under oracle-driven outcomes and compares data, errors and resolver log with the executable model of gqlgen (correspondence) and with the model of the GraphQL execution algorithm (monitor). Not yet proved: equality of the two collect algorithms up to repeated sub-selections (checked by the correspondence only): partial.",
        "level_note": "Trusted: Coq kernel + vm_compute; harness (probe factory, universal resolver, canonicaliser, operation/oracle generators); gqlparser validation establishes the well-formedness hypotheses of C01_collect_keys_unique; argument coercion is outside this check (C02).",
        "trusted": ["gqlparser validation (FieldsInSetCanMerge, fragment type conditions) establishes the hypotheses of C01_collect_keys_unique",
                    "resolver / directive behaviour is an oracle; the universal resolver installed by reflection implements it on the Go side",
                    "error messages are compared by class (resolver tag, directive tag, panic tag, null-in-non-null)"],
        "assumptions": ["leaf values are a function of the field name; custom scalars, arguments and @defer are outside this check",
                        "fuel 40 bounds selection depth in the executable model (operations generated are at most 6 deep)"],
    },
    "C03": {
        "engine": "c03", "monitors": ["c03"],
        "technique": "Coq proof (gate theorem over the executor/transport model for all oracles, extension lists and caches; nesting and exactly-once of processExtensions; cache invariant by induction over histories) + differential correspondence against handler.Server with instrumented extensions",
        "level_text": "Theorems for every parse/validate oracle, every extension list, every cache kind and every history: a refused or non-200 response contains no operation/root/field interceptor, Exec or resolver event and is errors-only; hooks nest in registration order, each exactly once; the cache holds only validated documents so a hit bypasses no gate; responses are history independent. The event log, status and body class of a real handler.Server are compared with the model over random histories on every check. Concurrent requests: the interleaving of the shared state is NOT yet modelled (the per-request global validator rule swap under SetDisableSuggestion is a known race candidate, see DESIGN section 7): partial.",
        "level_note": "Trusted: Coq kernel + vm_compute; harness; gqlparser as oracle; mock ExecutableSchema. Concurrency is outside this check (partial).",
        "trusted": ["parser.ParseQuery / validator.Validate / VariableValues are oracles that are functions of the query text; the harness obtains their verdicts by calling gqlparser directly",
                    "the ExecutableSchema is a mock that drives RootResolverMiddleware/ResolverMiddleware per root field the way generated code does; hooks of the real generated executor are exercised by the probe-server properties",
                    "classification of request headers (mime.ParseMediaType on Content-Type and on each Accept part) is done by the harness as input translation"],
        "assumptions": ["sequential histories only; 'under concurrent requests' is not decided by this check"],
    },
    "C07": {
        "engine": "c07", "monitors": ["c07", "c03"],
        "technique": "Coq proof (history independence of the pipeline model via the cache invariant; APQ registration as the only memory) + differential fresh-server oracle on real handler.Server histories",
        "level_text": "Theorem: after any finite history, on any cache kind, the model's response to a request equals a fresh server's; a cached document gives the uncached verdict; the APQ cache is the only memory (C15 invariant). Every request of every generated history is also sent to a freshly constructed real server and status, Content-Type and body must be byte-identical. The sync.Pool of POST parameters and concurrent in-flight requests are exercised only sequentially here: partial.",
        "level_note": "Trusted: Coq kernel + vm_compute; harness; sync.Pool and gqlparser AST immutability; concurrency not decided (partial).",
        "trusted": ["parser.ParseQuery / validator.Validate / VariableValues are oracles that are functions of the query text; the harness obtains their verdicts by calling gqlparser directly",
                    "the ExecutableSchema is a mock that drives RootResolverMiddleware/ResolverMiddleware per root field the way generated code does; hooks of the real generated executor are exercised by the probe-server properties",
                    "classification of request headers (mime.ParseMediaType on Content-Type and on each Accept part) is done by the harness as input translation"],
        "assumptions": ["deterministic resolvers (the mock returns constants)", "requests in flight beside each other are not explored by this check"],
    },
    "C09": {
        "engine": "c09", "monitors": ["c09"],
        "technique": "Coq proof (GET-only-queries, status-by-outcome, refusal status, negotiation and Content-Type presence over the transport model) + differential correspondence against the real transports",
        "level_text": "Theorems for all documents, operation names, extension lists and caches: over GET anything executes only if the named operation is a query (then 200); non-200 implies nothing executed; execution implies 200; refusals get 422, or 400 under application/graphql-response+json on GET/POST; the repaired code always sets a Content-Type (pinned commit refuted on three paths). Status, events, data-presence and Content-Type of real responses are compared with the model on every check.",
        "level_note": "Trusted: Coq kernel + vm_compute; harness (header classification); net/http, mime. SSE and multipart/mixed are covered by C12, websocket by C11.",
        "trusted": ["parser.ParseQuery / validator.Validate / VariableValues are oracles that are functions of the query text; the harness obtains their verdicts by calling gqlparser directly",
                    "the ExecutableSchema is a mock that drives RootResolverMiddleware/ResolverMiddleware per root field the way generated code does; hooks of the real generated executor are exercised by the probe-server properties",
                    "classification of request headers (mime.ParseMediaType on Content-Type and on each Accept part) is done by the harness as input translation"],
        "assumptions": ["the status rule keys on the response Content-Type actually chosen (a configured Content-Type overrides Accept): modelled as observed"],
    },
    "C10": {
        "engine": "c10", "monitors": ["mon", "c10"],
        "technique": "Coq proof (totality, delivery and frame of the upload-path walker by induction on the path; legacy walker refuted) + differential correspondence against RawParams.AddUpload and malformed requests on every transport",
        "level_text": "Theorems for every variables value and every map path: the repaired AddUpload never panics, on success the addressed position holds the upload and every position leaving the path reads as before; the pinned-commit walker is refuted on five shapes. The model is run against the real AddUpload on all 1- and 2-segment paths over seven variable shapes on every check. Transport-level malformed input (null bodies, bad multipart, websocket frames) is exercised against the real transports with the recover hook counted; that part is observation tied to a small decode model, and rests on encoding/json, mime/multipart and gorilla not panicking (partial).",
        "level_note": "Trusted: Coq kernel + vm_compute; harness (path segmentation by strings.Split/strconv.Atoi is done in the harness as input translation); encoding/json, mime/multipart, gorilla/websocket.",
        "trusted": ["strings.Split / strconv.Atoi classification of path segments is performed by the harness (input translation)"],
        "assumptions": ["'for any bytes' at the transport level rests on encoding/json, mime/multipart and gorilla/websocket not panicking (exercised, not proved)"],
    },
    "C08": {
        "engine": "c08",
        "technique": "Coq proof (UTF-8 decoder vs RFC 3629 encoder, JSON string grammar, decimal printer/parser round trip) + differential correspondence of writeQuotedString, integer marshalers/unmarshalers, FieldSet/Array against the model",
        "level_text": "Theorems for every byte string (no validity hypothesis): the escaper's output is valid UTF-8 and a JSON string literal denoting the input with each offending byte replaced by U+FFFD (identity on valid input); Go's range decoding accepts exactly RFC 3629 encodings; every integer of every width prints to a JSON number token that parses back through gqlgen's own decoding and unmarshaler; the pre-repair escaper is refuted. Library formatters (%g, time, duration, uuid, encoding/json for Map/Any) are outside the model: validated and round-tripped by the harness only (partial).",
        "level_note": "Trusted: Coq kernel + vm_compute; harness; strconv.Itoa/FormatInt/ParseInt are modelled (digit loop) and checked by correspondence; float text, time.Format, uuid, sosodev/duration, encoding/json are not modelled (partial). Composition of objects/lists is modelled as the punctuation writer and compared byte-for-byte; its JSON validity is judged by encoding/json in the harness.",
        "trusted": ["strconv integer formatting/parsing modelled as a digit loop (20 digits of fuel; theorems stated for |z| < 10^20)",
                    "library formatters (fmt %g, time.Format, uuid.String, duration.Format, encoding/json) validated by encoding/json in the harness, not modelled"],
        "assumptions": ["JSON decoding of the written bytes back to Go values is gqlgen's own (encoding/json with UseNumber), trusted",
                        "executable monitors (json_unquote, utf8_validb) restate the relational specification; they are run on the model's own output in every check (monmodel) but their agreement with the relations is not itself proved"],
    },
    "C16": {
        "engine": "c16", "monitors": ["mon"],
        "engine_timeout": {"quick": 900, "thorough": 7200},
        "technique": "Coq proof (the client's reconstruction inverts gqlgen's introspection for every well-formed schema, by structural induction with a sort/map commutation lemma; closed gate: non-interference and null-with-error for every query shape) + differential correspondence of the generated introspection resolvers on random schemas served through Config.Schema of probe servers generated at check time",
        "level_text": "Theorems for every schema of the shape gqlparser's loader produces (unbounded numbers of types, fields, arguments, input fields, enum values, directives; any list/non-null nesting, description, default, deprecation): rebuild(introspect s) = normalise s, where normalise only orders by name, hides the implicit __schema/__type entry fields and reads a bare @deprecated with its declared default; each argument reports its own deprecation; an interface's possibleTypes are exactly the objects declaring it; no reference dangles in a closed schema. With introspection disabled, for every collected query (any aliases, fragment merging, arguments): every key of __schema/__type/_service is null with an error, the errors are exactly those keys, and the whole response is equal for any two schema values (non-interference). The pinned commit is refuted on four deviations (all repaired by fix: commits). Every check loads pinned and random schemas independently with gqlparser, serves them through Config.Schema of probe servers generated from the current templates (both layouts), and compares (a) the answer to the full standard introspection query with the model and the rebuilt schema with the loaded one, (b) answers to random introspection query shapes (aliases, inline/named fragments, merged fields, @include, variables, includeDeprecated, __type(name:)) with the model's evaluator, gate open and closed, (c) closed-gate queries hidden among user fields, each also run against a second schema value (byte-identical responses required). Partial: the federation _service field is modelled (non-null, same gate) but not yet exercised on a generated federation probe; the link between the query evaluator and the record-level introspect function is established by the correspondence, not by a theorem; TypeRef depth of the standard query bounds list nesting at 9.",
        "level_note": "Trusted: Coq kernel + vm_compute; harness (schema generator, ast.Schema -> Coq printer, JSON -> Coq translation, query renderer that hides a known collected tree behind fragments/aliases/variables); gqlparser's loader and Value.String() (default values are compared as text); serving a foreign schema through Config.Schema means the root type is known to the executor as 'Query' (root type conditions are only generated for that name).",
        "trusted": ["gqlparser: LoadSchema (shape of definitions = wf_schema, checked on every case), Value.String() for default values, the MaxIntrospectionDepth rule (query shapes respect it)",
                    "the query renderer constructs the text from the collected tree the model evaluates (fragments, merged fields, variables are introduced by the renderer, so the expected collected form is known by construction)",
                    "a probe server generated for the probe schema serves other schemas through Config.Schema; root-level __typename therefore answers 'Query'"],
        "assumptions": ["type references nest at most 9 wrappers (depth of the TypeRef fragment used); deeper references are reported as malformed by the harness rather than compared",
                        "federation's _service gate is proved in the model and not exercised by this check"],
    },
    "C15": {
        "engine": "c15",
        "technique": "Coq proof (invariant by induction over request histories, any hash function, map/LRU cache) + differential correspondence against the real APQ extension over exhaustive short and random long histories",
        "level_text": "Theorems for every hash function H, every cache policy shipped (MapCache, LRU k) and every request history: a cached binding was sent earlier as text with exactly that hash and hashes to it; a hash-only request executes exactly such a text or is PersistedQueryNotFound; a mismatching request is rejected with the cache unchanged; no history rebinds a hash. The model is run against handler.Server+POST+AutomaticPersistedQuery on every check.",
        "level_note": "Trusted: Coq kernel + vm_compute; harness; mapstructure/encoding/json decoding of the extension (classified by the harness's abstract request forms and checked by the correspondence); hashicorp LRU is modelled (recency list) and checked by the correspondence, not verified; crypto/sha256 is the instance of H (no collision-resistance assumption is used).",
        "trusted": ["hash function is a Section variable (no assumption); harness instantiates it with crypto/sha256 on three texts",
                    "LRU semantics (hashicorp/golang-lru v2) modelled as a recency list; MapCache as an unbounded list"],
        "assumptions": ["query texts used by the harness are valid documents, so 'pipeline continues with text q' is observed as Exec seeing RawQuery = q"],
    },
    "C14": {
        "engine": "c14",
        "technique": "Coq proof (induction over the selection tree; lia over explicit 64-bit wrap) + differential correspondence of the model against complexity.Calculate/safeAdd/ComplexityLimit",
        "level_text": "Theorems over all int pairs, all selection trees, all custom functions: safeAdd never wraps and equals the saturating sum; Calculate equals the documented definition, is in [0,MaxInt], ignores negative custom costs, is monotone under added selections (for monotone custom functions; necessity shown); the gate rejects iff complexity > limit. The model is run against the real code on generated operations x custom tables and a boundary grid on every check.",
        "level_note": "Trusted: Coq kernel + vm_compute; the harness (generators, term printers); gqlparser's validation/ArgumentMap. Custom functions are oracles. 'No resolver runs' is observed at the ExecutableSchema.Exec boundary of a real server.",
        "trusted": [
            "custom complexity functions are user code: the theorems quantify over every function returning a Go int; the harness instantiates a table family (const/child+k/child*k/arg*child) on both sides",
            "translation of a validated gqlparser selection set to the model's csel term (harness/engines/c14 selsCoq)",
        ],
        "assumptions": [
            "C14_monotone assumes custom functions are monotone in the child cost (shown necessary by C14_monotone_needs_hyp_refuted)",
            "'invokes no resolver' is observed at the ExecutableSchema.Exec boundary of a real handler.Server",
        ],
    },
}
